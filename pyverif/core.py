"""Shared plumbing for the /verif checks: TLC runs, harness build + supervised runs, evidence,
known findings, verdict printing.  No semantic judgement lives here: every "is this allowed?"
question is answered by TLC evaluating a formula of /verif/spec."""
import json, os, re, shutil, subprocess, sys, time, hashlib, threading

ROOT = os.path.dirname(os.path.dirname(os.path.abspath(__file__)))
SPEC = os.path.join(ROOT, "spec")
WORK = os.path.join(ROOT, "work")
HARNESS = os.path.join(ROOT, "harness")
OUT = ROOT            # evidence/ and replays/ live here
# Alternate universe for evaluating seeded changes without touching /repo: VERIF_ALT_REPO names a
# scratch worktree of jackh726/bigtools; a copy of the harness is built against it and nothing is
# written to /verif/evidence or /verif/replays.  The registered checks never set this.
ALT_REPO = os.environ.get("VERIF_ALT_REPO")
if ALT_REPO:
    WORK = os.path.join(ROOT, "work", "alt")
    OUT = WORK
    HARNESS = os.path.join(ROOT, "work", "alt_harness")
# sweep mode (tools, not a registered check): the cases of a check are only EXECUTED (no TLC judgement) and every result that is
# not "ok" is listed in work/sweep/notok_<id>.ndjson; own work directory, nothing written to /verif/evidence or /verif/replays
SWEEP = os.environ.get("VERIF_SWEEP")
if SWEEP:
    WORK = os.path.join(ROOT, "work", "sweep")
    OUT = WORK
VH = os.path.join(HARNESS, "target", "debug", "vh")
# coverage mode (tools/coverage.sh): the harness and the CLI are built with source-based coverage
# instrumentation (nightly toolchain: it ships llvm-profdata / llvm-cov) into a separate target directory
COV = os.environ.get("VERIF_COV")
if COV:
    VH = os.path.join(WORK, "cov_target", "debug", "vh")
    os.makedirs(os.path.join(WORK, "cov_prof"), exist_ok=True)
    os.environ["LLVM_PROFILE_FILE"] = os.path.join(WORK, "cov_prof", "p-%p-%8m.profraw")
TLA_JAR = "/opt/veriftools/tla/tla2tools.jar:/opt/veriftools/tla/CommunityModules-deps.jar"
NCPU = os.cpu_count() or 4


class ToolError(Exception):
    """A failure of the machinery itself (exit 2, never a VIOLATION)."""


def log(*a):
    print(*a, flush=True)


def workdir(pid, fresh=True):
    d = os.path.join(WORK, ("covrun_" if COV else "") + pid)      # coverage-mode runs do not share a directory with ordinary runs
    if fresh and os.path.isdir(d):
        shutil.rmtree(d, ignore_errors=True)
    os.makedirs(d, exist_ok=True)
    return d


# --------------------------------------------------------------------------------------------
# TLC
# --------------------------------------------------------------------------------------------
class TlcResult:
    def __init__(self):
        self.out = ""
        self.generated = 0
        self.distinct = 0
        self.depth = 0
        self.replays = []      # decoded JSON payloads of <<"REPLAY", "json">> lines
        self.prints = []       # other PrintT tuples as raw text
        self.ok = False        # finished without error
        self.violation = None  # text of invariant / property violation if any
        self.coverage = {}     # action name -> count (from -coverage)
        self.wall = 0.0
        self.diameter = 0


_REPLAY = re.compile(r'^<<"REPLAY", "(.*)">>$')


def _unescape_tla_string(s):
    # TLC prints strings with \" and \\ escapes
    return s.replace('\\"', '"').replace("\\\\", "\\")


def tlc(module, cfg, metadir, env=None, workers=4, timeout=600, simulate=None, depth=None,
        seed=None, coverage=False, deadlock_off=True, xmx="4g", dfs=False, extra=None,
        collect_replays=True, replay_sink=None):
    """Run TLC on spec/<module>.tla with spec/<cfg>; parse what matters."""
    os.makedirs(metadir, exist_ok=True)
    jopts = "-Xss1g"
    if dfs:
        jopts += " -Dtlc2.tool.queue.IStateQueue=StateDeque"
    cmd = ["java", "-XX:+UseParallelGC", "-Xmx" + xmx, "-Xss1g"]
    if dfs:
        cmd.append("-Dtlc2.tool.queue.IStateQueue=StateDeque")
    cmd += ["-cp", TLA_JAR, "tlc2.TLC", "-workers", str(workers), "-metadir", metadir,
            "-noGenerateSpecTE", "-cleanup", "-config", os.path.join(SPEC, cfg)]
    if coverage:
        cmd += ["-coverage", "1"]
    if simulate is not None:
        cmd += ["-simulate", "num=%d" % simulate]
        if depth:
            cmd += ["-depth", str(depth)]
    if seed is not None:
        cmd += ["-seed", str(seed)]
    if deadlock_off:
        cmd += ["-deadlock"]
    if extra:
        cmd += extra
    cmd.append(os.path.join(SPEC, module + ".tla"))
    e = dict(os.environ)
    if env:
        e.update({k: str(v) for k, v in env.items()})
    r = TlcResult()
    t0 = time.time()
    try:
        p = subprocess.Popen(cmd, stdout=subprocess.PIPE, stderr=subprocess.STDOUT, env=e, cwd=metadir,
                             text=True, errors="replace")
    except OSError as ex:
        raise ToolError("cannot start TLC: %s" % ex)
    lines = []
    timer = threading.Timer(timeout, p.kill)
    timer.start()
    try:
        for line in p.stdout:
            line = line.rstrip("\n")
            m = _REPLAY.match(line)
            if m:
                if collect_replays or replay_sink:
                    try:
                        obj = json.loads(_unescape_tla_string(m.group(1)))
                    except Exception as ex:
                        raise ToolError("bad REPLAY line: %s (%s)" % (line[:200], ex))
                    if replay_sink:
                        replay_sink(obj)
                    else:
                        r.replays.append(obj)
                continue
            lines.append(line)
        p.wait()
    finally:
        timer.cancel()
    r.wall = time.time() - t0
    r.out = "\n".join(lines)
    if p.returncode is not None and p.returncode < 0:
        raise ToolError("TLC timed out / was killed after %ds on %s" % (timeout, module))
    for line in lines:
        m = re.search(r"(\d+) states generated, (\d+) distinct states found", line)
        if m:
            r.generated, r.distinct = int(m.group(1)), int(m.group(2))
        m = re.search(r"The number of states generated: (\d+)", line)       # simulation mode
        if m and r.generated == 0:
            r.generated = int(m.group(1))
            r.distinct = int(m.group(1))
        m = re.search(r"depth of the complete state graph search is (\d+)", line)
        if m:
            r.depth = int(m.group(1))
        m = re.match(r"^<(\w+) line \d+, col \d+ to line \d+, col \d+ of module (\w+)( \([\d ]+\))?>: (\d+):(\d+)", line)
        if m:
            key = m.group(1) + (m.group(3) or "")
            r.coverage[key] = r.coverage.get(key, 0) + int(m.group(5))
        if line.startswith("<<") and not line.startswith('<<"REPLAY"'):
            r.prints.append(line)
    txt = r.out
    if "Error:" in txt or "error" in txt.lower() and "violated" in txt:
        m = re.search(r"Error: (.*)", txt)
        r.violation = txt[txt.index("Error:"):][:4000] if "Error:" in txt else txt[-2000:]
    r.ok = (p.returncode == 0) and r.violation is None
    if p.returncode != 0 and r.violation is None:
        r.violation = "TLC exit code %s\n%s" % (p.returncode, txt[-3000:])
    return r


def tlc_must_pass(res, what):
    """A TLC run on the specification itself (mechanism => abstract) must pass; if it does not the
    machinery is broken or the model found a design-level counterexample (handled by caller)."""
    if not res.ok:
        raise ToolError("TLC run failed for %s:\n%s" % (what, (res.violation or res.out)[-3000:]))


# --------------------------------------------------------------------------------------------
# Rust harness
# --------------------------------------------------------------------------------------------
_built = False


def build_harness(quiet=True):
    """(Re)build the harness against /repo's current working tree with the hook guard on."""
    global _built
    if _built:
        return VH
    t0 = time.time()
    if ALT_REPO:
        os.makedirs(HARNESS, exist_ok=True)
        src = os.path.join(ROOT, "harness")
        subprocess.run(["rsync", "-a", "--delete", "--exclude", "target", src + "/", HARNESS + "/"], check=True)
        for fn in ("Cargo.toml",):
            p = os.path.join(HARNESS, fn)
            txt = open(p).read().replace("/repo/bigtools", os.path.join(ALT_REPO, "bigtools"))
            open(p, "w").write(txt)
    env = dict(os.environ)
    env["CARGO_NET_OFFLINE"] = "true"
    cmd = ["cargo", "build", "--offline"]
    if COV:
        cmd = ["cargo", "build", "--offline", "--target-dir", os.path.join(WORK, "cov_target")]
        env["RUSTFLAGS"] = "--cfg bigtools_verif --check-cfg cfg(bigtools_verif) -C instrument-coverage"
        env.pop("LLVM_PROFILE_FILE", None)
    p = subprocess.run(cmd, cwd=HARNESS, env=env,
                       stdout=subprocess.PIPE, stderr=subprocess.STDOUT, text=True)
    if p.returncode != 0:
        raise ToolError("harness build failed:\n" + p.stdout[-6000:])
    _built = True
    log("[build] harness built against /repo working tree in %.1fs" % (time.time() - t0))
    return VH


def run_harness(sub, cases, workdir_, shards=None, hang_timeout=8.0, env=None, extra_args=None,
                total_timeout=3600, max_hangs=2, mem_limit_mb=None, _confirm=True):
    """Run `vh <sub> IN OUT` over the cases (list of JSON-able objects, each gets "case": index).
    The harness writes one observation line per case, flushed, in order.  A worker that makes no
    progress for hang_timeout seconds is killed; the in-flight case is recorded as result "hang"
    and the worker restarted after it.  A worker that dies (abort, stack overflow) gives "crash".
    Returns the list of observation objects, in case order."""
    vh = build_harness()
    n = len(cases)
    if n == 0:
        return []
    os.makedirs(workdir_, exist_ok=True)
    if shards is None:
        shards = max(1, min(NCPU, n // 50 + 1))
    for i, c in enumerate(cases):
        c["case"] = i
    results = [None] * n
    e = dict(os.environ)
    if env:
        e.update({k: str(v) for k, v in env.items()})
    e.setdefault("RUST_BACKTRACE", "0")
    deadline = time.time() + total_timeout

    def run_shard(k):
        idx = list(range(k, n, shards))
        pos = 0
        attempt = 0
        hangs = 0
        while pos < len(idx):
            if hangs >= max_hangs:
                # a badly broken tree: do not spend hang_timeout on every remaining case
                for i in idx[pos:]:
                    o = dict(cases[i])
                    o["obs"] = {"result": "skipped"}
                    results[i] = o
                break
            attempt += 1
            inp = os.path.join(workdir_, "in_%s_%d_%d.ndjson" % (sub, k, attempt))
            outp = os.path.join(workdir_, "out_%s_%d_%d.ndjson" % (sub, k, attempt))
            with open(inp, "w") as f:
                for i in idx[pos:]:
                    f.write(json.dumps(cases[i], separators=(",", ":")) + "\n")
            open(outp, "w").close()
            cmd = [vh, sub, inp, outp] + (extra_args or [])
            errp = outp + ".stderr"
            def _limit():
                if mem_limit_mb:
                    import resource
                    resource.setrlimit(resource.RLIMIT_AS, (mem_limit_mb << 20, mem_limit_mb << 20))
            with open(errp, "w") as ef:
                p = subprocess.Popen(cmd, stdout=subprocess.DEVNULL, stderr=ef, env=e, preexec_fn=_limit if mem_limit_mb else None)
            last_size, last_change = 0, time.time()
            status = None
            while True:
                rc = p.poll()
                try:
                    sz = os.path.getsize(outp)
                except OSError:
                    sz = 0
                if sz != last_size:
                    last_size, last_change = sz, time.time()
                if rc is not None:
                    status = "exit"
                    break
                if time.time() - last_change > hang_timeout or time.time() > deadline:
                    p.kill()
                    p.wait()
                    status = "hang"
                    break
                time.sleep(0.02)
            got = 0
            with open(outp) as f:
                for line in f:
                    line = line.strip()
                    if not line:
                        continue
                    try:
                        o = json.loads(line)
                    except Exception:
                        break  # torn last line
                    results[o["case"]] = o
                    got += 1
            pos += got
            if pos < len(idx) and (status == "hang" or p.returncode != 0):
                i = idx[pos]
                o = dict(cases[i])
                tail = ""
                try:
                    tail = open(errp).read()[-400:]
                except OSError:
                    pass
                o["obs"] = {"result": "hang" if status == "hang" else "crash", "err": tail}
                results[i] = o
                pos += 1
                hangs += 1
            elif pos < len(idx) and status == "exit":
                raise ToolError("harness exited 0 with cases missing (%s shard %d)" % (sub, k))
            if time.time() > deadline:
                raise ToolError("harness total timeout (%s)" % sub)

    errs = []

    def wrap(k):
        try:
            run_shard(k)
        except Exception as ex:  # noqa
            errs.append(ex)

    ths = [threading.Thread(target=wrap, args=(k,)) for k in range(shards)]
    for t in ths:
        t.start()
    for t in ths:
        t.join()
    if errs:
        raise ToolError(str(errs[0]))
    if any(r is None for r in results):
        raise ToolError("harness lost cases")
    # a "hang" / "crash" seen while many workers share a busy machine may be starvation or the OOM killer: every such case is
    # run again ALONE with a generous limit, and only what hangs / crashes again is reported
    if not _confirm:
        return results
    suspects = [i for i, r in enumerate(results) if r["obs"].get("result") in ("hang", "crash")][:6]
    for i in suspects:
        again = run_harness(sub, [dict(cases[i])], os.path.join(workdir_, "confirm_%s_%d" % (sub, i)), shards=1, hang_timeout=max(90.0, hang_timeout * 6), env=env,
                            extra_args=extra_args, total_timeout=600, max_hangs=1, mem_limit_mb=mem_limit_mb, _confirm=False)[0]
        again["case"] = i
        if again["obs"].get("result") not in ("hang", "crash"):
            log("[harness] case %d of `%s` was reported as %s under load and completed when run alone: result %s" % (i, sub, results[i]["obs"].get("result"), again["obs"].get("result")))
            results[i] = again
    # cases skipped after repeated hangs of their shard: when those hangs were all spurious, they are run after all
    skipped = [i for i, r in enumerate(results) if r["obs"].get("result") == "skipped"]
    if skipped and suspects and all(results[i]["obs"].get("result") not in ("hang", "crash") for i in suspects):
        rest = run_harness(sub, [dict(cases[i]) for i in skipped], os.path.join(workdir_, "confirm_%s_rest" % sub), shards=min(4, len(skipped)), hang_timeout=max(30.0, hang_timeout * 3),
                           env=env, extra_args=extra_args, total_timeout=total_timeout, max_hangs=max_hangs, mem_limit_mb=mem_limit_mb, _confirm=False)
        for i, r in zip(skipped, rest):
            r["case"] = i
            results[i] = r
    return results


# --------------------------------------------------------------------------------------------
# Validation by TLC of observation files
# --------------------------------------------------------------------------------------------
def validate_obs(module, cfg, obs_lines, wd, name, shards=None, timeout=900, envname="OBS", xmx="3g",
                 extra_env=None):
    """Observation validation: TLC evaluates Holds(obs) for every line of the ndjson file (module
    spec/<module>.tla, POSTCONDITION prints <<"BAD", index, tag>> for every failing line and
    <<"CHECKED", n>>).  Returns list of (index, tag) of failing lines."""
    n = len(obs_lines)
    if n == 0:
        return []
    if shards is None:
        shards = max(1, min(NCPU // 2, n // 400 + 1))
    bad = []
    drift = []
    errs = []
    checked = [0]
    lock = threading.Lock()

    def one(k):
        idx = list(range(k, n, shards))
        path = os.path.join(wd, "%s_%d.ndjson" % (name, k))
        with open(path, "w") as f:
            for i in idx:
                f.write(obs_lines[i] + "\n")
        try:
            env = {envname: path}
            if extra_env:
                env.update(extra_env)
            r = tlc(module, cfg, os.path.join(wd, "tlc_%s_%d" % (name, k)), env=env,
                    workers=1, timeout=timeout, xmx=xmx, collect_replays=False)
        except ToolError as ex:
            errs.append(ex)
            return
        got_checked = False
        for ln in r.prints:
            m = re.match(r'^<<"BAD", (\d+), "([^"]*)">>', ln)
            if m:
                with lock:
                    bad.append((idx[int(m.group(1)) - 1], m.group(2)))
            m = re.match(r'^<<"DRIFT", (\d+)>>', ln)
            if m:
                with lock:
                    drift.append(idx[int(m.group(1)) - 1])
            m = re.match(r'^<<"CHECKED", (\d+)>>', ln)
            if m:
                got_checked = True
                if int(m.group(1)) != len(idx):
                    errs.append(ToolError("validator %s checked %s of %d lines" % (module, m.group(1), len(idx))))
                with lock:
                    checked[0] += int(m.group(1))
        if not got_checked:
            errs.append(ToolError("validator %s did not complete:\n%s" % (module, r.out[-3000:])))

    ths = [threading.Thread(target=one, args=(k,)) for k in range(shards)]
    for t in ths:
        t.start()
    for t in ths:
        t.join()
    if errs:
        raise ToolError(str(errs[0]))
    bad.sort()
    validate_obs.last_drift = sorted(drift)
    return bad


# --------------------------------------------------------------------------------------------
# Known findings
# --------------------------------------------------------------------------------------------
def load_known():
    p = os.path.join(ROOT, "known_findings.json")
    if not os.path.exists(p):
        return []
    return json.load(open(p))["findings"]


def known_for(pid):
    return [k for k in load_known() if k.get("property") == pid and k.get("status") == "known"]


# --------------------------------------------------------------------------------------------
# Verdict + evidence
# --------------------------------------------------------------------------------------------
class Run:
    """One execution of a check: collects counts, violations, known findings; writes evidence."""

    def __init__(self, pid, level="model_checking"):
        self.pid = pid
        self.tier = os.environ.get("VERIF_TIER", "quick")
        try:
            self.seed = int(os.environ.get("VERIF_SEED", "1"))
        except ValueError:
            self.seed = 1
        self.level = level
        self.t0 = time.time()
        self.cov = {"states": 0, "transitions": 0, "traces_validated_against_impl": 0, "samples": [],
                    "evaluations": 0, "distinct_nontrivial": 0, "rule": "", "tlc_runs": []}
        self.assumptions = []
        self.violations = []     # (what, replay_path)
        self.known_hits = {}     # fid -> count
        self.drift = 0
        self.wd = workdir(pid)
        self.replay_dir = os.path.join(OUT, "replays", pid)
        self._known = known_for(pid)
        self._distinct = set()

    @property
    def thorough(self):
        return self.tier == "thorough"

    def add_tlc(self, name, res):
        self.cov["states"] += res.distinct
        self.cov["transitions"] += res.generated
        self.cov["tlc_runs"].append({"name": name, "distinct_states": res.distinct, "states_generated": res.generated,
                                     "depth": res.depth, "wall_s": round(res.wall, 2),
                                     "behaviours_emitted": len(res.replays)})
        if res.coverage:
            self.cov.setdefault("action_coverage", {})[name] = res.coverage

    def sample(self, obj, limit=3):
        if len(self.cov["samples"]) < limit:
            self.cov["samples"].append(obj)

    def count_case(self, obj_key, nontrivial):
        self.cov["evaluations"] += 1
        if nontrivial:
            h = hashlib.blake2b(obj_key.encode() if isinstance(obj_key, str) else obj_key, digest_size=8).digest()
            self._distinct.add(h)

    def violation(self, what, replay_obj):
        """Record a violation unless it matches a known finding's fingerprint (fid given in
        replay_obj['known'] by the TLA+ classifier)."""
        fid = replay_obj.get("known") if isinstance(replay_obj, dict) else None
        if fid:
            for k in self._known:
                if k["id"] == fid:
                    self.known_hits[fid] = self.known_hits.get(fid, 0) + 1
                    return
        os.makedirs(self.replay_dir, exist_ok=True)
        path = os.path.join(self.replay_dir, "%s_%s_%d.json" % (self.pid, self.tier, len(self.violations) + 1))
        if len(self.violations) < 20:
            with open(path, "w") as f:
                json.dump({"property": self.pid, "what": what, "replay": replay_obj}, f, indent=1)
        self.violations.append((what, path))

    def finish(self):
        self.cov["distinct_nontrivial"] = len(self._distinct)
        wall = time.time() - self.t0
        ev = {"property_id": self.pid, "tier": self.tier, "seed": self.seed, "level": self.level,
              "coverage": self.cov, "assumptions": self.assumptions, "wall_s": round(wall, 2),
              "violations": len(self.violations)}
        if self.known_hits:
            ev["coverage"]["known_findings_hit"] = self.known_hits
        if self.drift:
            ev["coverage"]["model_drift_cases"] = self.drift
        # extras (X..: coverage beyond the listed properties) keep their evidence apart from the per-property files
        evbase = os.path.join(WORK, "cov_evidence") if COV else os.path.join(OUT, "evidence")     # coverage-mode runs are not evidence
        evdir = os.path.join(evbase, "extra") if self.pid.startswith("X") else evbase
        os.makedirs(evdir, exist_ok=True)
        with open(os.path.join(evdir, self.pid + ".json"), "w") as f:
            json.dump(ev, f, indent=1)
        for k in self._known:
            if k["id"] in self.known_hits:
                log("KNOWN-FINDING: property=%s %s (%s; %d cases this run)" % (self.pid, k["what"], k["id"], self.known_hits[k["id"]]))
        shutil.rmtree(self.wd, ignore_errors=True)
        if self.drift:
            log("MODEL-DRIFT: %d observation(s) satisfied the property but differ from the mechanism layer of the specification (not a violation)" % self.drift)
        if self.violations:
            for what, path in self.violations[:20]:
                log("VIOLATION property=%s replay=%s" % (self.pid, path))
                log("  " + what[:300])
            log("[%s] %d violation(s) in %.1fs" % (self.pid, len(self.violations), wall))
            return 1
        log("[%s] OK tier=%s states=%d traces=%d evaluations=%d distinct_nontrivial=%d wall=%.1fs" % (
            self.pid, self.tier, self.cov["states"], self.cov["traces_validated_against_impl"],
            self.cov["evaluations"], self.cov["distinct_nontrivial"], wall))
        return 0


REPLAYERS = {
    # replay kind -> (harness sub-command, validator module, extra env builder)
    "bbi": ("bbi", None),        # validator chosen from the case kind + property
    "refuse": ("refuse", "Obs_Refusal"),
    "reader": ("reader", "Obs_Reader"),
    "slicing": ("slicing", "Obs_Slicing"),
    "merge": ("merge", "Obs_Merge"),
    "autosql": ("autosql", "Obs_AutoSql"),
    "sink": ("sink", "Obs_Sink"),
    "stats": ("stats", "Obs_Stats"),
}


def replay_file(pid, path):
    """bin/check <ID> --replay <file>: re-execute the single recorded behaviour on the real code and let
    TLC judge it again.  Exit 0 = the property holds on it now, 1 = still violated."""
    d = json.load(open(path))
    rep = d.get("replay", {})
    kind = rep.get("kind")
    case = rep.get("case")
    if kind not in REPLAYERS or not isinstance(case, dict):
        log("replay of kind %r is not a single harness case: re-run `bin/check %s` (the stimulus is in %s)" % (kind, pid, path))
        return 2
    sub, module = REPLAYERS[kind]
    wd = workdir(pid + "_replay")
    case = dict(case)
    case.pop("dump", None)
    if isinstance(case.get("items"), str):
        log("the long generated behaviour cannot be replayed from the file: re-run `bin/check %s`" % pid)
        return 2
    obs = run_harness(sub, [case], wd, shards=1, hang_timeout=60)
    o = obs[0]
    o.pop("case", None)
    env = {}
    if kind == "bbi":
        module = "Obs_BigWig" if o.get("kind") == "bw" else "Obs_BigBed"
        prop = pid
        if pid == "C05":
            prop = "C03" if o.get("kind") == "bw" else "C04"
        if pid == "C09":
            log("C09 replays need the independent decode: re-run `bin/check C09`")
            return 2
        env = {"PROP": prop}
    if kind == "sink":
        o = {"mode": o.get("mode", "fault"), "obs": o["obs"]}
    line = json.dumps(o, separators=(",", ":"))
    bad = validate_obs(module, "Obs.cfg", [line], wd, "replay", shards=1, extra_env=env)
    log("observation: %s" % json.dumps(o.get("obs"))[:600])
    shutil.rmtree(wd, ignore_errors=True)
    if bad and not bad[0][1].startswith("known:"):
        log("VIOLATION property=%s replay=%s" % (pid, path))
        log("  still violated: %s" % bad[0][1])
        return 1
    log("[%s] replay: the property holds on this behaviour (%s)" % (pid, bad[0][1] if bad else "ok"))
    return 0


def main_wrap(fn):
    """Exit codes: 0 ok, 1 violation (printed), 2 tool error."""
    try:
        sys.exit(fn())
    except ToolError as ex:
        log("TOOL-ERROR: %s" % ex)
        sys.exit(2)
