"""Plumbing: project the codec's decoded image (DESIGN App. D.1) to the integer-only JSON shape that
the TLA+ predicates of BBIFormat.tla / RTreeImage.tla evaluate.  No judgement here."""
import re

ERR_TREE = {"error": 1, "nodes": [], "leaves": [], "leafext": [], "itemCount": 0, "blockSize": 0, "startChrom": 0, "startBase": 0,
            "endChrom": 0, "endBase": 0, "present": 1, "magic": "", "endFileOffset": 0, "itemsPerSlot": 0, "offset": 0}


def chrom_name(i):
    return "chr%s%s" % (chr(ord('A') + (i - 1) // 26), chr(ord('a') + (i - 1) % 26))


def chrom_idx(name):
    m = re.fullmatch(r"chr([A-Z])([a-z])", name or "")
    if not m:
        return 0
    return (ord(m.group(1)) - 65) * 26 + (ord(m.group(2)) - 97) + 1


def num(n, flag):
    if isinstance(n, dict) and "i" in n:
        return n["i"]
    flag[0] = 0
    return -77


def project_tree(idx, id2idx=None):
    """decoded R-tree -> TLC-friendly tree; chromosome ids mapped to model indices"""
    if idx is None or "error" in idx or not idx.get("nodes"):
        return dict(ERR_TREE)
    cm = (lambda c: id2idx.get(c, 0)) if id2idx is not None else (lambda c: c + 1)
    base = idx["offset"]
    order = sorted({it["dataOffset"] for nd in idx["nodes"] if nd["leaf"] for it in nd["items"]})
    rank = {o: i + 1 for i, o in enumerate(order)}
    nodes, err = [], 0
    for nd in idx["nodes"]:
        if "error" in nd:
            err = 1
            continue
        items = []
        for it in nd["items"]:
            ptr = rank[it["dataOffset"]] if nd["leaf"] else it["child"] - base
            items.append([cm(it["sc"]), it["sb"], cm(it["ec"]), it["eb"], ptr])
        nodes.append({"off": nd["offset"] - base, "leaf": 1 if nd["leaf"] else 0, "items": items})
    lv = idx.get("leaves", [])
    leaves = [[cm(it["sc"]), it["sb"], cm(it["ec"]), it["eb"], rank[it["dataOffset"]]] for it in lv]
    return {"error": err, "nodes": nodes, "leaves": leaves, "leafext": [[it["dataOffset"], it["dataSize"]] for it in lv],
            "itemCount": idx["itemCount"], "blockSize": idx["blockSize"], "startChrom": cm(idx["startChrom"]), "startBase": idx["startBase"],
            "endChrom": cm(idx["endChrom"]), "endBase": idx["endBase"], "present": 1, "magic": idx.get("magic", ""),
            "endFileOffset": idx["endFileOffset"], "itemsPerSlot": idx["itemsPerSlot"], "offset": idx["offset"]}


def project_image(img, rest_ids=None, idspace=False):
    """whole file; rest_ids: dict rest-text -> entry id (bigBed)"""
    if img is None or "error" in img or "header" not in img:
        return {"error": 1}
    h = img["header"]
    kind = "bw" if img["kind"] == "bigwig" else "bb"
    ct = img.get("chromTree") or {}
    chroms = ct.get("chroms", [])
    id2idx = {c["id"]: chrom_idx(c["key"]) for c in chroms}
    if idspace:
        # blocks / index entries keep the file's own chromosome ids (+1), not the name's model index
        id2idx = {c["id"]: c["id"] + 1 for c in chroms}
    err = 0
    if "error" in ct:
        err = 1
    sint, zint = [1], [1]
    sm = img.get("summary")
    summary = {"bases": sm["bases"], "min": num(sm["min"], sint), "max": num(sm["max"], sint), "sum": num(sm["sum"], sint),
               "sumsq": num(sm["sumSq"], sint), "int": 1} if sm else {"bases": 0, "min": 0, "max": 0, "sum": 0, "sumsq": 0, "int": 0}
    summary["int"] = sint[0] if sm else 0

    def blocks_of(bl, zoom):
        out = []
        for b in bl:
            items = []
            if zoom:
                for it in b.get("items", []):
                    items.append([id2idx.get(it[0], 0), it[1], it[2], it[3], num(it[4], zint), num(it[5], zint), num(it[6], zint), num(it[7], zint)])
            elif kind == "bw":
                sec = b.get("section") or {}
                c = id2idx.get(sec.get("chrom"), 0)
                v = [1]
                for it in b.get("items", []):
                    items.append([c, it[0], it[1], num(it[2], v)])
            else:
                for it in b.get("items", []):
                    items.append([id2idx.get(it[0], 0), it[1], it[2], (rest_ids or {}).get(it[3], 0)])
            cs = {it[0] for it in items}
            sec = b.get("section") or {}
            ms = min([it[1] for it in items], default=0)
            me = max([it[2] for it in items], default=0)
            out.append({"off": b["offset"], "size": b["size"], "zlibOk": 1 if b.get("zlibOk") and "error" not in b else 0, "rawLen": b.get("rawLen", 0),
                        "chrom": items[0][0] if items else 0, "onechrom": 1 if len(cs) == 1 else 0, "nitems": len(items), "minstart": ms, "maxend": me,
                        "lastchrom": items[-1][0] if items else 0, "firststart": items[0][1] if items else 0, "lastend": items[-1][2] if items else 0,
                        "hs": sec.get("start", ms) if (kind == "bw" and not zoom) else ms, "he": sec.get("end", me) if (kind == "bw" and not zoom) else me,
                        "items": items})
        return out
    zooms = []
    for z in img.get("zooms", []):
        zooms.append({"reduction": z["reduction"], "index": project_tree(z.get("index"), id2idx), "blocks": blocks_of(z.get("blocks", []), True)})
    return {"error": err, "kind": kind, "magic": h["magic"], "trailer": img.get("trailer") or "", "version": h["version"], "fileLen": img["fileLen"],
            "zoomLevels": h["zoomLevels"], "chromTreeOffset": h["chromTreeOffset"], "fullDataOffset": h["fullDataOffset"], "fullIndexOffset": h["fullIndexOffset"],
            "fieldCount": h["fieldCount"], "definedFieldCount": h["definedFieldCount"], "autoSqlOffset": h["autoSqlOffset"],
            "totalSummaryOffset": h["totalSummaryOffset"], "uncompressBufSize": h["uncompressBufSize"],
            "zoomDir": [[z["reduction"], z["dataOffset"], z["indexOffset"]] for z in img.get("zoomDir", [])],
            "zoomDirReserved": [z.get("reserved", 0) for z in img.get("zoomDir", [])], "extensionOffset": h.get("extensionOffset", 0),
            "autoSqlLen": len((img.get("autoSql") or "").encode("utf-8", "surrogateescape")) if isinstance(img.get("autoSql"), str) else 0,
            "summary": summary, "dataCount": img.get("dataCount", 0),
            "ctree": {"magic": ct.get("magic", ""), "blockSize": ct.get("blockSize", 0), "keySize": ct.get("keySize", 0), "valSize": ct.get("valSize", 0),
                      "itemCount": ct.get("itemCount", 0), "maxNodeItems": max([len(n.get("items", [])) for n in ct.get("nodes", [])] + [0]), "chroms": [[chrom_idx(c["key"]), c["id"], c["size"], len(c["key"].encode())] for c in chroms]},
            "index": project_tree(img.get("index"), id2idx), "blocks": blocks_of(img.get("blocks", []), False), "zooms": zooms, "zint": zint[0]}
