#!/opt/veriftools/pyvenv/bin/python
"""Runs inside the tooling venv: executes call sequences (drawn by TLC from spec/PyApi.tla) on the REAL
pybigtools extension and records every call with its outcome class and projected payload.
   usage: pyapi_driver.py MODDIR SEQS.ndjson TRACE.ndjson INITDIR WORKDIR
Plumbing only: nothing here decides whether an outcome is right (Trace_PyApi.tla does)."""
import sys, json, math, os, io, shutil, re
sys.path.insert(0, sys.argv[1])
import pybigtools  # noqa

NAMES = {1: "chrAa", 2: "chrAb", 3: "chrZz"}
IDX = {"chrAa": 1, "chrAb": 2}
FILES = {1: "a.bw", 2: "b.bb", 3: "c.bw", 4: "d.bb", 5: "e.txt"}


def cls_of(ex):
    if isinstance(ex, pybigtools.BBIFileClosed):
        return "closed"
    if isinstance(ex, pybigtools.BBIReadError):
        return "read"
    if isinstance(ex, KeyError):
        return "key"
    if isinstance(ex, ValueError):
        return "value"
    if isinstance(ex, StopIteration):
        return "stop"
    if isinstance(ex, TypeError):
        return "type"
    return "other:" + type(ex).__name__


def enc(x):
    x = float(x)
    if math.isnan(x):
        return [0, 1]
    return [int(round(x * 1000000)), 0]


def rid(tokens):
    m = re.fullmatch(r"k(\d+)", tokens[0]) if tokens else None
    return int(m.group(1)) if m else 0


def run_seq(seq, initdir, wd, out):
    shutil.rmtree(wd, ignore_errors=True)
    os.makedirs(wd)
    for f in ("a.bw", "b.bb", "e.txt"):
        shutil.copyfile(os.path.join(initdir, f), os.path.join(wd, f))
    out.write(json.dumps({"op": "reset"}) + "\n")
    rd, its, wr = {}, {}, {}
    for o in seq:
        o = dict(o)
        o.pop("exp", None)
        op = o["op"]
        try:
            if op == "open":
                path = os.path.join(wd, FILES[o["p"]])
                if o["via"] == "path":
                    b = pybigtools.open(path)
                else:
                    b = pybigtools.open(io.BytesIO(open(path, "rb").read()))
                rd[o["h"]] = b
                o["kind"] = "bw" if b.is_bigwig else ("bb" if b.is_bigbed else "none")
                o["zl"] = [int(z) for z in b.zooms()]
            elif op in ("close", "exit", "isbw", "isbb", "chroms", "chrom1", "zooms", "info", "sql", "records", "zoomrecs", "values"):
                b = rd.get(o["h"])
                if b is None:
                    o = {"op": "skip"}
                elif op == "close":
                    b.close()
                elif op == "exit":
                    with b:
                        pass
                elif op == "isbw":
                    o["val"] = 1 if b.is_bigwig else 0
                elif op == "isbb":
                    o["val"] = 1 if b.is_bigbed else 0
                elif op == "chroms":
                    o["val"] = [[IDX.get(k, 0), int(v)] for k, v in b.chroms().items()]
                elif op == "chrom1":
                    o["val"] = int(b.chroms(NAMES[o["c"]]))
                elif op == "zooms":
                    o["val"] = [int(z) for z in b.zooms()]
                elif op == "info":
                    inf = b.info()
                    s = inf["summary"]
                    o["val"] = [int(inf["chromCount"]), int(s["basesCovered"]), int(round(s["sum"])), int(round(s["min"])), int(round(s["max"]))]
                elif op == "sql":
                    txt = b.sql()
                    t = txt.split()
                    o["val"] = t[1] if len(t) > 1 and t[0] == "table" else ""
                elif op == "records":
                    its[o["i"]] = ("rec", b.records(NAMES[o["c"]], o["s"], o["e"]))
                elif op == "zoomrecs":
                    its[o["i"]] = ("zoom", b.zoom_records(o["lvl"], NAMES[o["c"]], o["s"], o["e"]))
                elif op == "values":
                    o["val"] = [enc(x) for x in b.values(NAMES[o["c"]], o["s"], o["e"])]
            elif op == "next":
                ent = its.get(o["i"])
                if ent is None:
                    o = {"op": "skip"}
                else:
                    x = next(ent[1])
                    if ent[0] == "zoom":
                        d = x[2]
                        o["item"] = [int(x[0]), int(x[1]), int(d["bases_covered"]), int(round(d["min_val"])), int(round(d["max_val"])), int(round(d["sum"])), int(round(d["sum_squares"]))]
                    elif isinstance(x[2], str):
                        o["item"] = [int(x[0]), int(x[1]), rid(list(x[2:]))]
                    else:
                        o["item"] = [int(x[0]), int(x[1]), int(round(x[2]))] if float(x[2]) == int(round(x[2])) else [int(x[0]), int(x[1]), -12345]
            elif op == "wopen":
                wr[o["w"]] = (pybigtools.open(os.path.join(wd, FILES[o["p"]]), "w"), FILES[o["p"]])
            elif op in ("wwrite", "wclose"):
                ent = wr.get(o["w"])
                if ent is None:
                    o = {"op": "skip"}
                elif op == "wclose":
                    ent[0].close()
                else:
                    items = o.pop("items")
                    isbw = ent[1].endswith(".bw")
                    vals = [(NAMES[x[0]], x[1], x[2], float(x[3]) if isbw else "k%d\t%d" % (x[3], x[3] * 10)) for x in items]
                    if not o["good"]:
                        vals.append((NAMES[1], 20, 30, 1.0 if isbw else "k99\t1"))      # beyond the chromosome: refused
                    ent[0].write({"chrAa": 10, "chrAb": 6}, iter(vals))
            if o["op"] != "skip":
                o.setdefault("cls", "ok")
        except StopIteration as ex:
            o["cls"] = "stop"
            its[o["i"]] = None
        except BaseException as ex:
            if isinstance(ex, (KeyboardInterrupt, SystemExit)):
                raise
            o["cls"] = cls_of(ex)
            o["err"] = str(ex)[:120]
            o.pop("items", None)
        o.pop("items", None)
        out.write(json.dumps(o) + "\n")
    out.flush()


def main():
    moddir, seqs, trace, initdir, wd = sys.argv[1:6]
    with open(trace, "w") as out:
        for n, line in enumerate(open(seqs)):
            run_seq(json.loads(line), initdir, os.path.join(wd, "seq"), out)


main()
