#!/usr/bin/env python3
"""Independent decoder and encoder for the UCSC BBI container (bigWig / bigBed).

This module is the trusted base of the byte-level properties: it is written from
the published byte layout (DESIGN.md Appendix H) only, uses nothing but the
Python standard library (struct, zlib, json, sys, math) and shares no code with
the implementation under test.

    decode(data, bits=False) -> dict            abstract file image (DESIGN.md Appendix D.1)
    encode(layout, want_meta=False) -> bytes    lay out a well-formed file from a description
                                                (returns (bytes, meta) when want_meta is true)

    python3 bbi_codec.py decode FILE [--bits]   > image.json
    python3 bbi_codec.py encode LAYOUT.json OUT [--meta]

`decode` never raises: whatever cannot be parsed becomes an `"error": "text"`
member of the object in which the problem occurred (the top-level object for
header problems) and decoding continues with whatever is still reachable.
`encode` raises ValueError for layouts it cannot express (e.g. a 70000-item
bigWig section); it never produces a file silently different from the layout.

Layout accepted by `encode` (every key except "kind" is optional; defaults in brackets):

  { "kind": "bigwig"|"bigbed", "endian": "little"|"big" [little], "version": n [4],
    "compress": bool [false], "compressLevel": 0..9 [6], "uncompressBufSize": n [max inflated block | 0],
    "chroms": [["chrA", 100], ...], "ids": [permutation] [position in "chroms"],
    "chromTreeBlockSize": n>=1 [256], "keySize": n [longest name], "chromTreeNodeOrder": "bfs"|"dfs" [bfs],
    "chromTreeFirst": bool [true]      tree before the data (kent) or between data and main index,
    "autoSql": "text"|null [null], "fieldCount": n, "definedFieldCount": n,
    "summary": {"bases","min","max","sum","sumSq"} | null   (null: totalSummaryOffset = 0; key absent: computed),
    "dataCount": n|null [bigwig: number of sections, bigbed: number of items],
    "sections": bigwig  {"chrom": id, "type": 1, "items": [[s, e, v], ...]}
                        {"chrom": id, "type": 2, "span": k, "items": [[s, v], ...]}
                        {"chrom": id, "type": 3, "start": s, "step": k, "span": k, "values": [v, ...]}
                        (optional "start"/"end"/"step"/"span" override the section header fields)
                bigbed  {"chrom": id, "items": [[s, e, "rest"], ...]}   (or [chrom, s, e, "rest"] per item)
                one section = one data block = one leaf item of the main index, in the order given,
    "rtree": {"blockSize": b>=2 [256], "itemsPerSlot": n, "gap": bytes of zero padding between nodes [0],
              "nodeOrder": "bfs"|"dfs"|"leaves_first"|"reverse_levels" [bfs]},
    "zooms": [{"reduction": r, "records": [[chrom, s, e, valid, min, max, sum, sumSq], ...],
               "itemsPerBlock": n [all], "crossChrom": bool [false], "countPrefix": bool [false], "rtree": {...}}] }

A float value v is a number, {"bits": "hex"} for an exact IEEE bit pattern, or a NUM as produced
by `decode` ({"i": k} / {"bits": ..., "f": ...}).
"""

import json
import math
import struct
import sys
import zlib

BIGWIG_MAGIC = 0x888FFC26
BIGBED_MAGIC = 0x8789F2EB
CHROM_TREE_MAGIC = 0x78CA8C91
RTREE_MAGIC = 0x2468ACE0

HEADER_FMT = "IHHQQQHHQQIQ"        # 64 bytes, see Appendix H
HEADER_FIELDS = ("magic", "version", "zoomLevels", "chromTreeOffset", "fullDataOffset",
                 "fullIndexOffset", "fieldCount", "definedFieldCount", "autoSqlOffset",
                 "totalSummaryOffset", "uncompressBufSize", "extensionOffset")
RTREE_HEADER_FMT = "IIQIIIIQII"    # 48 bytes
MAX_TREE_DEPTH = 64                # a legal tree over < 2^64 items is far shallower


# ----------------------------------------------------------------------------------------------
# NUM: the JSON form of a floating point field
# ----------------------------------------------------------------------------------------------

def _num(x, hexbits, want_bits):
    """Integral values of magnitude < 2^31 become {"i": k}; everything else keeps its bit pattern."""
    if math.isfinite(x) and x == math.floor(x) and abs(x) < 2 ** 31:
        out = {"i": int(x)}
        if want_bits:
            out["bits"] = hexbits
        return out
    if math.isnan(x):
        f = "nan"
    elif math.isinf(x):
        f = "inf" if x > 0 else "-inf"
    else:
        f = x
    return {"bits": hexbits, "f": f}


def _num32(u, want_bits):
    """u is the u32 bit pattern of an f32 field (read as an integer so NaN payloads survive)."""
    return _num(struct.unpack("<f", struct.pack("<I", u))[0], "%08X" % u, want_bits)


def _num64(u, want_bits):
    return _num(struct.unpack("<d", struct.pack("<Q", u))[0], "%016X" % u, want_bits)


def _float_bits(v, width):
    """Inverse of NUM for the encoder: v is a number, {"i": k} or {"bits": "hex"}.
    Returns the unsigned integer holding the IEEE bit pattern (width = 4 or 8 bytes)."""
    ffmt, ifmt = ("<f", "<I") if width == 4 else ("<d", "<Q")
    if isinstance(v, dict):
        if "bits" in v:
            u = int(v["bits"], 16)
            if u >> (8 * width):
                raise ValueError("bit pattern %r does not fit %d bytes" % (v["bits"], width))
            return u
        if "i" in v:
            v = v["i"]
        else:
            raise ValueError("float value %r has neither 'bits' nor 'i'" % (v,))
    if isinstance(v, str):                       # "nan", "inf", "-inf"
        v = float(v)
    try:
        return struct.unpack(ifmt, struct.pack(ffmt, float(v)))[0]
    except OverflowError:
        raise ValueError("value %r does not fit an f%d" % (v, 8 * width))


# ----------------------------------------------------------------------------------------------
# Decoder
# ----------------------------------------------------------------------------------------------

def _err(obj, msg):
    """Attach (or append) an error text to the JSON object in which the problem occurred."""
    obj["error"] = (obj["error"] + "; " + msg) if "error" in obj else msg


class _Reader:
    """Bounds-checked fixed-endian reads from an immutable byte string."""

    def __init__(self, data, prefix):
        self.data = data
        self.E = prefix                         # "<" or ">"

    def unpack(self, fmt, off):
        size = struct.calcsize(self.E + fmt)
        if off < 0 or off + size > len(self.data):
            raise ValueError("read of %d bytes at offset %d runs past end of file (%d bytes)"
                             % (size, off, len(self.data)))
        return struct.unpack_from(self.E + fmt, self.data, off)


def _text(b):
    return b.decode("utf-8", errors="replace")


def _decode_chrom_tree(rd, off):
    """B+ tree of chromosome names: 32-byte header, root node right behind it."""
    tree = {"offset": off}
    nodes, chroms, seen = [], [], set()
    try:
        magic, block_size, key_size, val_size, item_count, _reserved = rd.unpack("IIIIQQ", off)
        tree.update(magic="%08X" % magic, blockSize=block_size, keySize=key_size,
                    valSize=val_size, itemCount=item_count)
        if magic != CHROM_TREE_MAGIC:
            _err(tree, "chromosome tree magic is %08X, expected %08X" % (magic, CHROM_TREE_MAGIC))
        if val_size != 8:
            _err(tree, "valSize is %d, expected 8" % val_size)

        def visit(node_off, level):
            node = {"offset": node_off}
            nodes.append(node)
            if node_off in seen:
                return _err(node, "node reached twice (cycle or shared child)")
            if level > MAX_TREE_DEPTH:
                return _err(node, "tree deeper than %d levels" % MAX_TREE_DEPTH)
            seen.add(node_off)
            children = []
            try:
                is_leaf, _res, count = rd.unpack("BBH", node_off)
                node.update(leaf=bool(is_leaf), count=count, items=[])
                if is_leaf > 1:
                    _err(node, "isLeaf byte is %d" % is_leaf)
                stride = key_size + (val_size if is_leaf else 8)
                for i in range(count):
                    p = node_off + 4 + i * stride
                    key = _text(rd.unpack("%ds" % key_size, p)[0].rstrip(b"\0"))
                    if not is_leaf:
                        child = rd.unpack("Q", p + key_size)[0]
                        node["items"].append({"key": key, "child": child})
                        children.append(child)
                    elif val_size == 8:
                        cid, csize = rd.unpack("II", p + key_size)
                        item = {"key": key, "id": cid, "size": csize}
                        node["items"].append(item)
                        chroms.append(dict(item))
                    else:                       # unknown value shape: keep the bytes, as hex
                        val = rd.unpack("%ds" % val_size, p + key_size)[0]
                        node["items"].append({"key": key, "val": val.hex().upper()})
            except Exception as e:              # noqa: BLE001 - decode never raises
                _err(node, str(e))
            for child in children:
                visit(child, level + 1)

        visit(off + 32, 1)
    except Exception as e:                      # noqa: BLE001
        _err(tree, str(e))
    tree["nodes"] = nodes
    tree["chroms"] = chroms
    return tree


def _decode_rtree(rd, off):
    """R-tree index: 48-byte header, root node right behind it, depth-first pre-order traversal."""
    tree = {"offset": off}
    nodes, leaves, seen, depth = [], [], set(), [0]
    try:
        (magic, block_size, item_count, sc, sb, ec, eb,
         end_file_offset, items_per_slot, _reserved) = rd.unpack(RTREE_HEADER_FMT, off)
        tree.update(magic="%08X" % magic, blockSize=block_size, itemCount=item_count,
                    startChrom=sc, startBase=sb, endChrom=ec, endBase=eb,
                    endFileOffset=end_file_offset, itemsPerSlot=items_per_slot)
        if magic != RTREE_MAGIC:
            _err(tree, "R-tree magic is %08X, expected %08X" % (magic, RTREE_MAGIC))

        def visit(node_off, level):
            node = {"offset": node_off}
            nodes.append(node)
            if node_off in seen:
                return _err(node, "node reached twice (cycle or shared child)")
            if level > MAX_TREE_DEPTH:
                return _err(node, "tree deeper than %d levels" % MAX_TREE_DEPTH)
            seen.add(node_off)
            depth[0] = max(depth[0], level)
            children = []
            try:
                is_leaf, _res, count = rd.unpack("BBH", node_off)
                node.update(leaf=bool(is_leaf), count=count, items=[])
                if is_leaf > 1:
                    _err(node, "isLeaf byte is %d" % is_leaf)
                for i in range(count):
                    if is_leaf:
                        a, b, c, d, doff, dsize = rd.unpack("IIIIQQ", node_off + 4 + 32 * i)
                        item = {"sc": a, "sb": b, "ec": c, "eb": d, "dataOffset": doff, "dataSize": dsize}
                        leaves.append(dict(item))
                    else:
                        a, b, c, d, child = rd.unpack("IIIIQ", node_off + 4 + 24 * i)
                        item = {"sc": a, "sb": b, "ec": c, "eb": d, "child": child}
                        children.append(child)
                    node["items"].append(item)
            except Exception as e:              # noqa: BLE001
                _err(node, str(e))
            for child in children:
                visit(child, level + 1)

        visit(off + 48, 1)
    except Exception as e:                      # noqa: BLE001
        _err(tree, str(e))
    tree["nodes"] = nodes
    tree["leaves"] = leaves
    tree["depth"] = depth[0]
    return tree


def _read_block(data, off, size, compressed):
    """Fetch one data block and inflate it when the file is compressed.
    Returns (block object, inflated bytes or None)."""
    blk = {"offset": off, "size": size, "zlibOk": True, "rawLen": 0, "items": []}
    if off > len(data) or off + size > len(data):
        blk["zlibOk"] = False
        _err(blk, "block [%d, %d) runs past end of file (%d bytes)" % (off, off + size, len(data)))
        return blk, None
    raw = data[off:off + size]
    if compressed:
        try:
            # decompressobj instead of zlib.decompress only to see how much input the stream used;
            # like zlib.decompress, an unfinished stream is an error and trailing bytes are not.
            z = zlib.decompressobj()
            inflated = z.decompress(raw)
            if not z.eof:
                raise zlib.error("incomplete or truncated stream")
            if z.unused_data:
                blk["trailingBytes"] = len(z.unused_data)
            raw = inflated
        except Exception as e:                  # noqa: BLE001
            blk["zlibOk"] = False
            _err(blk, "zlib: %s" % e)
            return blk, None
    blk["rawLen"] = len(raw)
    return blk, raw


def _parse_wig_section(raw, E, blk, want_bits):
    """bigWig block = one section: 24-byte header + items of type 1 / 2 / 3, expanded to [s, e, NUM]."""
    if len(raw) < 24:
        return _err(blk, "section of %d bytes is shorter than its 24-byte header" % len(raw))
    chrom, start, end, step, span, typ, _res, count = struct.unpack_from(E + "IIIIIBBH", raw, 0)
    blk["section"] = {"chrom": chrom, "start": start, "end": end, "step": step, "span": span,
                      "type": typ, "count": count}
    item_size = {1: 12, 2: 8, 3: 4}.get(typ)
    if item_size is None:
        return _err(blk, "unknown section type %d" % typ)
    n = min(count, (len(raw) - 24) // item_size)
    if n < count:
        _err(blk, "section header says %d items, only %d fit in %d bytes" % (count, n, len(raw)))
    elif len(raw) > 24 + n * item_size:
        blk["extraBytes"] = len(raw) - 24 - n * item_size
    body = raw[24:24 + n * item_size]
    items = blk["items"]
    if typ == 1:                                # bedGraph
        for s, e, v in struct.iter_unpack(E + "III", body):
            items.append([s, e, _num32(v, want_bits)])
    elif typ == 2:                              # variableStep
        for s, v in struct.iter_unpack(E + "II", body):
            items.append([s, s + span, _num32(v, want_bits)])
    else:                                       # fixedStep
        s = start
        for (v,) in struct.iter_unpack(E + "I", body):
            items.append([s, s + span, _num32(v, want_bits)])
            s += step


def _parse_bed_block(raw, E, blk):
    """bigBed block: chromId u32, start u32, end u32, rest bytes, NUL - until < 12 bytes remain."""
    p, items = 0, blk["items"]
    while len(raw) - p >= 12:
        chrom, s, e = struct.unpack_from(E + "III", raw, p)
        nul = raw.find(b"\0", p + 12)
        if nul < 0:
            items.append([chrom, s, e, _text(raw[p + 12:])])
            _err(blk, "last item is not NUL-terminated")
            p = len(raw)
            break
        items.append([chrom, s, e, _text(raw[p + 12:nul])])
        p = nul + 1
    if p < len(raw):
        blk["extraBytes"] = len(raw) - p


def _parse_zoom_block(raw, E, blk, want_bits):
    """Zoom block: 32-byte summary records."""
    n = len(raw) // 32
    for chrom, s, e, valid, mn, mx, sm, sq in struct.iter_unpack(E + "IIIIIIII", raw[:32 * n]):
        blk["items"].append([chrom, s, e, valid, _num32(mn, want_bits), _num32(mx, want_bits),
                             _num32(sm, want_bits), _num32(sq, want_bits)])
    if len(raw) > 32 * n:
        blk["extraBytes"] = len(raw) - 32 * n


def _decode_blocks(data, E, leaves, compressed, what, want_bits):
    """One block per index leaf item, in the order given. `what` = "bigwig" | "bigbed" | "zoom" | None."""
    out = []
    for leaf in leaves:
        blk, raw = _read_block(data, leaf["dataOffset"], leaf["dataSize"], compressed)
        if raw is not None:
            try:
                if what == "bigwig":
                    _parse_wig_section(raw, E, blk, want_bits)
                elif what == "bigbed":
                    _parse_bed_block(raw, E, blk)
                elif what == "zoom":
                    _parse_zoom_block(raw, E, blk, want_bits)
                else:
                    _err(blk, "file kind unknown, block left unparsed")
            except Exception as e:              # noqa: BLE001
                _err(blk, str(e))
        out.append(blk)
    return out


def decode(data, bits=False):
    """Decode a bigWig / bigBed file image into the abstract JSON image of DESIGN.md Appendix D.1.

    data: the complete file contents.  bits=True makes every NUM carry its "bits" (even integral ones).
    Never raises; see the module docstring for the error convention."""
    data = bytes(data)
    img = {"kind": None, "endian": None, "fileLen": len(data), "header": None, "zoomDir": [],
           "autoSql": None, "summary": None, "dataCount": None, "chromTree": None, "index": None,
           "blocks": [], "zooms": [], "trailer": None}

    # -- magic: decides the kind and the byte order -------------------------------------------
    if len(data) < 4:
        _err(img, "file of %d bytes is too short for a magic number" % len(data))
        return img
    for prefix, name in (("<", "little"), (">", "big")):
        magic = struct.unpack_from(prefix + "I", data, 0)[0]
        if magic in (BIGWIG_MAGIC, BIGBED_MAGIC):
            img["kind"] = "bigwig" if magic == BIGWIG_MAGIC else "bigbed"
            img["endian"] = name
            break
    else:
        _err(img, "unknown magic (bytes %s); continuing as little-endian, kind unknown"
             % data[:4].hex().upper())
        prefix, img["endian"] = "<", "little"
    E = prefix
    rd = _Reader(data, E)
    img["trailer"] = "%08X" % rd.unpack("I", len(data) - 4)[0]

    # -- fixed header -------------------------------------------------------------------------
    try:
        fields = rd.unpack(HEADER_FMT, 0)
    except Exception as e:                      # noqa: BLE001
        _err(img, "header: %s" % e)
        return img
    hdr = dict(zip(HEADER_FIELDS, fields))
    hdr["magic"] = "%08X" % hdr["magic"]
    img["header"] = hdr
    compressed = hdr["uncompressBufSize"] > 0

    # -- zoom directory, right after the header -----------------------------------------------
    for i in range(hdr["zoomLevels"]):
        try:
            reduction, _res, doff, ioff = rd.unpack("IIQQ", 64 + 24 * i)
        except Exception as e:                  # noqa: BLE001
            _err(img, "zoom directory entry %d: %s" % (i, e))
            break
        img["zoomDir"].append({"reduction": reduction, "reserved": _res, "dataOffset": doff, "indexOffset": ioff})

    # -- autoSql ------------------------------------------------------------------------------
    off = hdr["autoSqlOffset"]
    if off:
        if off >= len(data):
            _err(img, "autoSqlOffset %d is past end of file" % off)
        else:
            nul = data.find(b"\0", off)
            if nul < 0:
                _err(img, "autoSql text is not NUL-terminated")
                nul = len(data)
            img["autoSql"] = _text(data[off:nul])

    # -- total summary ------------------------------------------------------------------------
    off = hdr["totalSummaryOffset"]
    if off:
        try:
            bases, mn, mx, sm, sq = rd.unpack("QQQQQ", off)     # the four f64 read as bit patterns
            img["summary"] = {"bases": bases, "min": _num64(mn, bits), "max": _num64(mx, bits),
                              "sum": _num64(sm, bits), "sumSq": _num64(sq, bits)}
        except Exception as e:                  # noqa: BLE001
            img["summary"] = {"error": str(e)}

    # -- data count ---------------------------------------------------------------------------
    try:
        img["dataCount"] = rd.unpack("Q", hdr["fullDataOffset"])[0]
    except Exception as e:                      # noqa: BLE001
        _err(img, "dataCount: %s" % e)

    # -- chromosome tree, main index, data blocks ---------------------------------------------
    img["chromTree"] = _decode_chrom_tree(rd, hdr["chromTreeOffset"])
    img["index"] = _decode_rtree(rd, hdr["fullIndexOffset"])
    img["blocks"] = _decode_blocks(data, E, img["index"]["leaves"], compressed, img["kind"], bits)

    # -- zoom levels --------------------------------------------------------------------------
    for entry in img["zoomDir"]:
        zoom = dict(entry)
        zoom["index"] = _decode_rtree(rd, entry["indexOffset"])
        zoom["blocks"] = _decode_blocks(data, E, zoom["index"]["leaves"], compressed, "zoom", bits)
        img["zooms"].append(zoom)
    return img


# ----------------------------------------------------------------------------------------------
# Encoder: generic bottom-up tree construction and node placement
# ----------------------------------------------------------------------------------------------

class _Node:
    """A node of either tree. Leaf nodes hold payload tuples, inner nodes hold child _Nodes."""

    def __init__(self, leaf, items):
        self.leaf = leaf
        self.items = items
        self.offset = None
        self.level = None                       # 0 = root


def _chunks(seq, n):
    return [seq[i:i + n] for i in range(0, len(seq), n)]


def _build_tree(leaf_items, leaf_fan, inner_fan):
    """Pack items into leaf nodes of up to leaf_fan items, then repeatedly group nodes into parents
    of up to inner_fan children until a single root remains. All leaves end up at the same level."""
    level = [_Node(True, c) for c in _chunks(leaf_items, leaf_fan)] or [_Node(True, [])]
    if len(level) > 1 and inner_fan < 2:
        raise ValueError("fan-out %d cannot index %d leaf nodes" % (inner_fan, len(level)))
    while len(level) > 1:
        level = [_Node(False, c) for c in _chunks(level, inner_fan)]
    return level[0]


def _tree_levels(root):
    levels, cur = [], [root]
    while cur:
        for n in cur:
            n.level = len(levels)
        levels.append(cur)
        cur = [c for n in cur if not n.leaf for c in n.items]
    return levels


def _order_nodes(root, order):
    """The sequence in which nodes are written. The root always comes first (it must sit right
    behind the tree header); the order only governs the nodes after it."""
    levels = _tree_levels(root)
    if order == "bfs":                          # level by level, top down
        seq = [n for lv in levels for n in lv]
    elif order == "dfs":                        # pre-order
        seq = []

        def walk(n):
            seq.append(n)
            if not n.leaf:
                for c in n.items:
                    walk(c)
        walk(root)
    elif order == "leaves_first":               # root, leaf level, then inner levels top down
        rest = levels[1:]
        seq = [root] + [n for lv in rest[-1:] + rest[:-1] for n in lv]
    elif order == "reverse_levels":             # root, then deepest level first up to level 1
        seq = [root] + [n for lv in reversed(levels[1:]) for n in lv]
    else:
        raise ValueError("unknown node order %r" % (order,))
    return seq, len(levels)


def _place_nodes(seq, first_offset, node_size, gap):
    """Assign file offsets in writing order; `gap` zero bytes separate consecutive nodes."""
    pos = first_offset
    for i, n in enumerate(seq):
        n.offset = pos
        pos += node_size(n) + (gap if i + 1 < len(seq) else 0)
    return pos


def _hull(bounds):
    """Bounding interval of (sc, sb, ec, eb) tuples under lexicographic (chrom, base) order."""
    bounds = list(bounds)
    if not bounds:
        return (0, 0, 0, 0)
    return min((b[0], b[1]) for b in bounds) + max((b[2], b[3]) for b in bounds)


def _rtree_bytes(leaf_items, base, end_file_offset, opts, default_slot, E):
    """Serialise an R-tree whose header starts at file offset `base`.
    leaf_items: [(sc, sb, ec, eb, dataOffset, dataSize)]. Returns (bytes, meta)."""
    opts = opts or {}
    b = int(opts.get("blockSize", 256))
    gap = int(opts.get("gap", 0))
    order = opts.get("nodeOrder", "bfs")
    slot = int(opts.get("itemsPerSlot", default_slot))
    if b < 1:
        raise ValueError("rtree.blockSize must be >= 1")
    root = _build_tree(list(leaf_items), b, b)
    seq, depth = _order_nodes(root, order)
    end = _place_nodes(seq, base + 48, lambda n: 4 + len(n.items) * (32 if n.leaf else 24), gap)

    def bounds(n):
        return _hull(n.items if n.leaf else [bounds(c) for c in n.items])

    out = bytearray(end - base)
    struct.pack_into(E + RTREE_HEADER_FMT, out, 0, RTREE_MAGIC, b, len(leaf_items),
                     *(bounds(root) + (end_file_offset, slot, 0)))
    for n in seq:
        p = n.offset - base
        struct.pack_into(E + "BBH", out, p, 1 if n.leaf else 0, 0, len(n.items))
        for i, it in enumerate(n.items):
            if n.leaf:
                struct.pack_into(E + "IIIIQQ", out, p + 4 + 32 * i, *it)
            else:
                struct.pack_into(E + "IIIIQ", out, p + 4 + 24 * i, *(bounds(it) + (it.offset,)))
    meta = {"offset": base, "end": end, "blockSize": b, "itemsPerSlot": slot, "itemCount": len(leaf_items),
            "depth": depth, "nodeOrder": order, "gap": gap, "endFileOffset": end_file_offset,
            "bounds": list(bounds(root)),
            "nodes": [{"offset": n.offset, "leaf": n.leaf, "count": len(n.items), "level": n.level}
                      for n in seq]}
    return bytes(out), meta


def _chrom_tree_bytes(chroms, ids, base, block_size, key_size, order, E):
    """Serialise the chromosome B+ tree whose header starts at `base`. Keys are sorted bytewise.

    Leaf nodes hold up to block_size items. With block_size 1 and more than one chromosome a tree
    of fan-out 1 cannot exist, so inner nodes then get two children and the header declares 2."""
    names = [c[0].encode("utf-8") for c in chroms]
    if key_size is None:
        key_size = max([len(n) for n in names] + [1])
    for n in names:
        if len(n) > key_size:
            raise ValueError("chromosome name %r is longer than keySize %d" % (n, key_size))
    if block_size < 1:
        raise ValueError("chromTreeBlockSize must be >= 1")
    items = sorted((n.ljust(key_size, b"\0"), int(i), int(c[1])) for n, i, c in zip(names, ids, chroms))
    inner_fan = max(block_size, 2)
    root = _build_tree(items, block_size, inner_fan)
    declared = block_size if root.leaf else inner_fan
    seq, depth = _order_nodes(root, order)
    end = _place_nodes(seq, base + 32, lambda n: 4 + len(n.items) * (key_size + 8), 0)

    def first_key(n):
        return n.items[0][0] if n.leaf else first_key(n.items[0])

    out = bytearray(end - base)
    struct.pack_into(E + "IIIIQQ", out, 0, CHROM_TREE_MAGIC, declared, key_size, 8, len(items), 0)
    for n in seq:
        p = n.offset - base
        struct.pack_into(E + "BBH", out, p, 1 if n.leaf else 0, 0, len(n.items))
        for i, it in enumerate(n.items):
            q = p + 4 + i * (key_size + 8)
            if n.leaf:
                struct.pack_into(E + "%dsII" % key_size, out, q, *it)
            else:
                struct.pack_into(E + "%dsQ" % key_size, out, q, first_key(it), it.offset)
    meta = {"offset": base, "end": end, "blockSize": declared, "keySize": key_size, "itemCount": len(items),
            "depth": depth, "nodeOrder": order,
            "nodes": [{"offset": n.offset, "leaf": n.leaf, "count": len(n.items), "level": n.level}
                      for n in seq]}
    return bytes(out), meta


# ----------------------------------------------------------------------------------------------
# Encoder: data blocks
# ----------------------------------------------------------------------------------------------

def _wig_section(sec, E):
    """One bigWig section -> (uncompressed bytes, (sc, sb, ec, eb)).
    The header's chromStart / chromEnd (and the index entry) are first start .. max end unless the
    section gives explicit "start" / "end"."""
    chrom, typ = int(sec["chrom"]), int(sec.get("type", 1))
    body = bytearray()
    if typ == 1:
        items = sec.get("items", [])
        step, span = int(sec.get("step", 0)), int(sec.get("span", 0))
        for s, e, v in items:
            body += struct.pack(E + "III", s, e, _float_bits(v, 4))
        start = items[0][0] if items else 0
        end = max([it[1] for it in items] + [start])
    elif typ == 2:
        items = sec.get("items", [])
        step, span = int(sec.get("step", 0)), int(sec["span"])
        for s, v in items:
            body += struct.pack(E + "II", s, _float_bits(v, 4))
        start = items[0][0] if items else 0
        end = max([it[0] + span for it in items] + [start])
    elif typ == 3:
        items = sec.get("values", [])
        step, span, start = int(sec["step"]), int(sec["span"]), int(sec["start"])
        for v in items:
            body += struct.pack(E + "I", _float_bits(v, 4))
        end = start + (len(items) - 1) * step + span if items else start
    else:
        raise ValueError("unknown bigWig section type %r" % (typ,))
    if typ != 3:
        start = int(sec.get("start", start))
    end = int(sec.get("end", end))
    if len(items) > 0xFFFF:
        raise ValueError("a bigWig section holds at most 65535 items, got %d" % len(items))
    head = struct.pack(E + "IIIIIBBH", chrom, start, end, step, span, typ, 0, len(items))
    return head + bytes(body), (chrom, start, chrom, end)


def _bed_section(sec, E):
    """One bigBed block -> (uncompressed bytes, hull). Items are [s, e, rest] on the section's
    chromosome, or [chrom, s, e, rest] to name the chromosome per item."""
    body, bounds = bytearray(), []
    for it in sec.get("items", []):
        chrom, s, e, rest = ([int(sec["chrom"])] + list(it)) if len(it) == 3 else it
        body += struct.pack(E + "III", chrom, s, e) + rest.encode("utf-8") + b"\0"
        bounds.append((chrom, s, chrom, e))
    if not bounds:
        c = int(sec.get("chrom", 0))
        bounds = [(c, 0, c, 0)]
    return bytes(body), _hull(bounds)


def _zoom_blocks(zoom, E):
    """Cut the zoom records into blocks of itemsPerBlock, breaking at chromosome changes unless
    "crossChrom" is true. Returns [(uncompressed bytes, hull)]."""
    records = zoom.get("records", [])
    per_block = int(zoom.get("itemsPerBlock") or max(len(records), 1))
    groups = []
    for rec in records:
        if (groups and len(groups[-1]) < per_block
                and (zoom.get("crossChrom") or groups[-1][-1][0] == rec[0])):
            groups[-1].append(rec)
        else:
            groups.append([rec])
    out = []
    for g in groups:
        raw = b"".join(struct.pack(E + "IIIIIIII", c, s, e, valid, *[_float_bits(x, 4) for x in stats])
                       for c, s, e, valid, *stats in g)
        out.append((raw, _hull((r[0], r[1], r[0], r[2]) for r in g)))
    return out


def _default_summary(kind, sections):
    """Convenience when the layout has no "summary" key: per-base statistics assuming the items do
    not overlap (bigBed: depth 1 wherever an item lies). Give an explicit summary for exact control."""
    bases, mn, mx, sm, sq = 0, None, None, 0.0, 0.0
    for sec in sections:
        if kind == "bigbed":
            vals = [(it[-2] - it[-3], 1.0) for it in sec.get("items", [])]
        else:
            blk = {"items": []}                 # expand types 2/3 by reading back our own section bytes
            _parse_wig_section(_wig_section(sec, "<")[0], "<", blk, True)
            vals = [(e - s, struct.unpack(">f", bytes.fromhex(n["bits"]))[0]) for s, e, n in blk["items"]]
        for n, v in vals:
            bases, sm, sq = bases + n, sm + n * v, sq + n * v * v
            mn, mx = (v if mn is None else min(mn, v)), (v if mx is None else max(mx, v))
    return {"bases": bases, "min": mn or 0.0, "max": mx or 0.0, "sum": sm, "sumSq": sq}


# ----------------------------------------------------------------------------------------------
# Encoder: whole file
# ----------------------------------------------------------------------------------------------

def encode(layout, want_meta=False):
    """Lay out a well-formed bigWig / bigBed file from the description `layout` (the knobs are listed
    in the module docstring). Deterministic: the same layout always gives the same bytes.

    File order: header(64) | zoom directory | autoSql | total summary | [chrom tree] | dataCount(8) |
    data blocks | [chrom tree] | main index | per zoom: (optional u32 count) data blocks, index | magic.
    Returns the bytes, or (bytes, meta) with the chosen offsets when want_meta is true."""
    kind = layout["kind"]
    if kind not in ("bigwig", "bigbed"):
        raise ValueError("kind must be 'bigwig' or 'bigbed'")
    endian = layout.get("endian", "little")
    if endian not in ("little", "big"):
        raise ValueError("endian must be 'little' or 'big'")
    E = "<" if endian == "little" else ">"
    magic = BIGWIG_MAGIC if kind == "bigwig" else BIGBED_MAGIC
    version = int(layout.get("version", 4))
    compress = bool(layout.get("compress", False))
    level = int(layout.get("compressLevel", 6))
    chroms = layout.get("chroms", [])
    ids = layout.get("ids") or list(range(len(chroms)))
    if len(ids) != len(chroms):
        raise ValueError("'ids' must have one entry per chromosome")
    sections = layout.get("sections", [])
    zooms = layout.get("zooms", [])
    tree_first = bool(layout.get("chromTreeFirst", True))
    max_raw = [0]

    def pack_block(raw):
        max_raw[0] = max(max_raw[0], len(raw))
        return zlib.compress(raw, level) if compress else raw

    def chrom_tree(base):
        return _chrom_tree_bytes(chroms, ids, base, int(layout.get("chromTreeBlockSize", 256)),
                                 layout.get("keySize"), layout.get("chromTreeNodeOrder", "bfs"), E)

    def write_blocks(out, raw_blocks):
        """Append the blocks contiguously; returns (R-tree leaf items, meta)."""
        leaves, metas = [], []
        for raw, bounds in raw_blocks:
            blob = pack_block(raw)
            leaves.append(tuple(bounds) + (len(out), len(blob)))
            metas.append({"offset": len(out), "size": len(blob), "rawLen": len(raw), "bounds": list(bounds)})
            out += blob
        return leaves, metas

    meta = {"kind": kind, "endian": endian}
    out = bytearray(64 + 24 * len(zooms))       # header and zoom directory are filled in last

    # -- autoSql and total summary ------------------------------------------------------------
    auto_sql_offset = 0
    if layout.get("autoSql") is not None:
        auto_sql_offset = len(out)
        out += layout["autoSql"].encode("utf-8") + b"\0"
    summary = layout["summary"] if "summary" in layout else _default_summary(kind, sections)
    summary_offset = 0
    if summary is not None:
        summary_offset = len(out)
        out += struct.pack(E + "QQQQQ", int(summary["bases"]),
                           *[_float_bits(summary[k], 8) for k in ("min", "max", "sum", "sumSq")])

    # -- chromosome tree (kent position), data count, data blocks ------------------------------
    if tree_first:
        chrom_tree_offset = len(out)
        blob, meta["chromTree"] = chrom_tree(chrom_tree_offset)
        out += blob
    make = _wig_section if kind == "bigwig" else _bed_section
    raw_blocks = [make(sec, E) for sec in sections]
    data_count = layout.get("dataCount")
    if data_count is None:
        data_count = (len(sections) if kind == "bigwig"
                      else sum(len(sec.get("items", [])) for sec in sections))
    full_data_offset = len(out)
    out += struct.pack(E + "Q", data_count)
    leaves, meta["blocks"] = write_blocks(out, raw_blocks)
    data_end = len(out)
    if not tree_first:
        chrom_tree_offset = len(out)
        blob, meta["chromTree"] = chrom_tree(chrom_tree_offset)
        out += blob

    # -- main index ---------------------------------------------------------------------------
    if kind == "bigbed":
        default_slot = max([len(sec.get("items", [])) for sec in sections] + [1])
    else:
        default_slot = 1
    full_index_offset = len(out)
    blob, meta["index"] = _rtree_bytes(leaves, full_index_offset, data_end, layout.get("rtree"),
                                       default_slot, E)
    out += blob

    # -- zoom levels: data then index ---------------------------------------------------------
    zoom_dir, meta["zooms"] = [], []
    for zoom in zooms:
        data_offset = len(out)
        if zoom.get("countPrefix"):             # kent writes the record count ahead of the blocks
            out += struct.pack(E + "I", len(zoom.get("records", [])))
        zleaves, zblocks = write_blocks(out, _zoom_blocks(zoom, E))
        zdata_end = len(out)
        index_offset = len(out)
        blob, zindex = _rtree_bytes(zleaves, index_offset, zdata_end, zoom.get("rtree"), 1, E)
        out += blob
        zoom_dir.append((int(zoom["reduction"]), 0, data_offset, index_offset))
        meta["zooms"].append({"reduction": int(zoom["reduction"]), "dataOffset": data_offset,
                              "indexOffset": index_offset, "blocks": zblocks, "index": zindex})

    # -- trailer, then the header and zoom directory now that every offset is known ------------
    meta["trailerOffset"] = len(out)
    out += struct.pack(E + "I", magic)
    buf_size = layout.get("uncompressBufSize")
    if buf_size is None:
        buf_size = max_raw[0] if compress else 0
    field_count = layout.get("fieldCount")
    if field_count is None:
        field_count = 0
        if kind == "bigbed":
            first = next((it for sec in sections for it in sec.get("items", [])), None)
            field_count = 3 + (len(first[-1].split("\t")) if first and first[-1] else 0)
    defined = layout.get("definedFieldCount")
    if defined is None:
        defined = min(field_count, 3)
    header = (magic, version, len(zooms), chrom_tree_offset, full_data_offset, full_index_offset,
              int(field_count), int(defined), auto_sql_offset, summary_offset, int(buf_size), 0)
    struct.pack_into(E + HEADER_FMT, out, 0, *header)
    for i, entry in enumerate(zoom_dir):
        struct.pack_into(E + "IIQQ", out, 64 + 24 * i, *entry)

    meta["header"] = dict(zip(HEADER_FIELDS, header))
    meta["header"]["magic"] = "%08X" % magic
    meta["dataEnd"] = data_end
    meta["fileLen"] = len(out)
    return (bytes(out), meta) if want_meta else bytes(out)


def relayout(img, endian):
    """The decoded image `img` of a well-formed file as an encoder layout in byte order `endian`: the same chromosome table and
    ids, the same records block by block, the same summary, autoSql, field counts and zoom records, the same index fan-out.
    encode(relayout(decode(data, bits=True), "big")) is "the same file as a big-endian machine would hold it"."""
    h, ct = img["header"], img["chromTree"]
    lay = {"kind": img["kind"], "endian": endian, "version": h["version"], "compress": h["uncompressBufSize"] > 0,
           "chroms": [[c["key"], c["size"]] for c in ct["chroms"]], "ids": [c["id"] for c in ct["chroms"]],
           "chromTreeBlockSize": max(ct["blockSize"], 1), "keySize": ct["keySize"], "chromTreeFirst": h["chromTreeOffset"] < h["fullDataOffset"],
           "rtree": {"blockSize": img["index"]["blockSize"], "itemsPerSlot": img["index"]["itemsPerSlot"]},
           "summary": img["summary"], "dataCount": img["dataCount"], "fieldCount": h["fieldCount"], "definedFieldCount": h["definedFieldCount"]}
    if img.get("autoSql") is not None:
        lay["autoSql"] = img["autoSql"]
    secs = []
    for b in img["blocks"]:
        if img["kind"] == "bigwig":
            sec = b["section"]
            secs.append({"chrom": sec["chrom"], "type": 1, "start": sec["start"], "end": sec["end"], "items": [[it[0], it[1], it[2]] for it in b["items"]]})
        else:
            secs.append({"items": [[it[0], it[1], it[2], it[3]] for it in b["items"]]})
    lay["sections"] = secs
    zooms = []
    for z in img.get("zooms", []):
        recs = [list(it) for b in z["blocks"] for it in b["items"]]
        zooms.append({"reduction": z["reduction"], "records": recs, "itemsPerBlock": max([len(b["items"]) for b in z["blocks"]] + [1]),
                      "rtree": {"blockSize": z["index"]["blockSize"], "itemsPerSlot": z["index"]["itemsPerSlot"]}})
    lay["zooms"] = zooms
    return lay


# ----------------------------------------------------------------------------------------------
# Command line
# ----------------------------------------------------------------------------------------------

def main(argv):
    args = [a for a in argv if not a.startswith("--")]
    flags = set(a for a in argv if a.startswith("--"))
    if len(args) == 2 and args[0] == "decode" and flags <= {"--bits"}:
        with open(args[1], "rb") as f:
            img = decode(f.read(), bits="--bits" in flags)
        json.dump(img, sys.stdout, allow_nan=False)
        sys.stdout.write("\n")
        return 0
    if len(args) == 3 and args[0] == "encode" and flags <= {"--meta"}:
        with open(args[1], "r", encoding="utf-8") as f:
            layout = json.load(f)
        blob, meta = encode(layout, want_meta=True)
        with open(args[2], "wb") as f:
            f.write(blob)
        if "--meta" in flags:
            json.dump(meta, sys.stdout)
            sys.stdout.write("\n")
        return 0
    sys.stderr.write("usage: bbi_codec.py decode FILE [--bits]\n"
                     "       bbi_codec.py encode LAYOUT.json OUT [--meta]\n")
    return 2


if __name__ == "__main__":
    sys.exit(main(sys.argv[1:]))
