#!/opt/veriftools/pyvenv/bin/python
"""Runs inside the tooling venv (numpy): drives the REAL pybigtools extension built from the repository.
   usage: py_driver.py MODDIR IN.ndjson OUT.ndjson   -- plumbing only: call values(), encode floats."""
import sys, json, math
sys.path.insert(0, sys.argv[1])
import pybigtools  # noqa


def enc(x):
    x = float(x)
    if math.isnan(x):
        return [0, 1]
    if math.isinf(x):
        return [0, 2]
    return [int(round(x * 1000000)), 0]


def fill(f):
    return float("nan") if f == 99 else float(f)


def milli(x):
    x = float(x)
    if math.isnan(x):
        return 0, 1
    return int(round(x * 1000)), 0


def aob(c):
    """average_over_bed(bed, names=..., stats="all") of the real extension -> rows as the CLI check uses them"""
    b = pybigtools.open(c["path"])
    nm = c["name"]
    names = {"col4": True, "col5": 5, "interval": False, "default": 4, "none": None}[nm]
    rows = []
    # the statistics either as the named tuple ("all") or as an explicit list of the seven names (a plain tuple, in that order)
    aslist = c.get("statslist", 0)
    fields = ["size", "bases", "sum", "mean0", "mean", "min", "max"]
    import collections
    T = collections.namedtuple("T", fields)
    for i, r in enumerate(b.average_over_bed(c["bed"], names=names, stats=(fields if aslist else "all")), 1):
        if names is None:
            name, st = i, r
        else:
            label, st = r
        if aslist:
            st = T(*st)
        if names is not None:
            reg = c["regions"][i - 1]
            want = {"col4": "r%d" % i, "default": "r%d" % i, "col5": "x%d" % i, "interval": "%s:%d-%d" % (c["chroms"][reg[0] - 1], reg[1], reg[2])}[nm]
            name = i if label == want else 0
        row = {"name": name, "size": int(st.size), "bases": int(st.bases)}
        row["sum_m"], _ = milli(st.sum)
        row["mean0_m"], row["mean0_nan"] = milli(st.mean0)
        row["mean_m"], row["mean_nan"] = milli(st.mean)
        row["min_m"], row["min_nan"] = milli(st.min)
        row["max_m"], row["max_nan"] = milli(st.max)
        rows.append(row)
    return {"rc": 0, "parsed": 1, "rows": rows, "same_as_t1": 1, "err": ""}


class Flaky:
    """a file-like object over a real file whose read() raises from the (n+1)-th call on (n = None: never); counts the calls"""
    def __init__(self, path, n=None):
        self.f, self.n, self.k = open(path, "rb"), n, 0

    def read(self, size=-1):
        self.k += 1
        if self.n is not None and self.k > self.n:
            raise IOError("injected read failure")
        return self.f.read(size)

    def seek(self, off, whence=0):
        return self.f.seek(off, whence)

    def tell(self):
        return self.f.tell()


def flaky_values(c, kw):
    """the same values() request through a file-like object: once counting the read() calls, then once per call made DURING the request
    with that call (and all later ones) failing - every outcome is reported: an exception, or the array that was returned"""
    fl = Flaky(c["path"])
    b = pybigtools.open(fl)
    k_open = fl.k
    b.values(c["chrom"], c["s"], c["e"], **kw)
    k_total = fl.k
    outs = []
    for n in range(k_open, k_total):
        fl = Flaky(c["path"], n)
        try:
            b = pybigtools.open(fl)
            v = b.values(c["chrom"], c["s"], c["e"], **kw)
            outs.append({"n": n, "result": "ok", "out": [enc(x) for x in v]})
        except BaseException as ex:
            outs.append({"n": n, "result": "exception", "out": [], "err": "%s: %s" % (type(ex).__name__, str(ex)[:80])})
    return {"reads_at_open": k_open, "reads_total": k_total, "faults": outs}


def main():
    out = open(sys.argv[3], "w")
    handles = {}
    for line in open(sys.argv[2]):
        c = json.loads(line)
        if c.get("mode") == "sql":
            try:
                b = pybigtools.open(c["path"])
                txt = b.sql()
                # parse=True describes ONE table: only asked for single-declaration schemas
                nf = len(b.sql(parse=True)["fields"]) if len(c["counts"]) == 1 else c["hfc"]
                c["obs"] = {"result": "ok", "same": 1 if txt == c["schema"] else 0, "nfields": nf}
            except BaseException as ex:
                c["obs"] = {"result": "exception", "same": 0, "nfields": -1, "err": "%s: %s" % (type(ex).__name__, str(ex)[:200])}
            c.pop("schema", None)
            out.write(json.dumps(c) + "\n")
            out.flush()
            continue
        if c.get("mode") == "aob":
            try:
                c["obs"] = aob(c)
            except BaseException as ex:
                c["obs"] = {"rc": 1, "parsed": 0, "rows": [], "same_as_t1": 1, "err": "%s: %s" % (type(ex).__name__, str(ex)[:200])}
            out.write(json.dumps(c) + "\n")
            out.flush()
            continue
        try:
            b = handles.get(c["path"])
            if b is None:
                b = handles[c["path"]] = pybigtools.open(c["path"])
            kw = {"missing": fill(c["missing"]), "oob": fill(c["oob"])}
            if c["bins"]:
                kw.update(bins=c["bins"], summary=c["stat"], exact=bool(c.get("exact", 1)))
            if c.get("arr"):
                # a caller-supplied, previously used output array: its old contents must not show through
                import numpy as np
                n = c["bins"] if c["bins"] else (c["e"] - c["s"])
                kw["arr"] = np.full(n, 777.25, dtype=np.float64)
            v = b.values(c["chrom"], c["s"], c["e"], **kw)
            c["obs"] = {"result": "ok", "out": [enc(x) for x in v]}
            if c.get("flaky"):
                kw.pop("arr", None)
                c["obs"]["flaky"] = flaky_values(c, kw)
        except BaseException as ex:      # pyo3 panics surface as PanicException (BaseException)
            c["obs"] = {"result": "exception", "out": [], "err": "%s: %s" % (type(ex).__name__, str(ex)[:200])}
            handles.pop(c.get("path"), None)
        out.write(json.dumps(c) + "\n")
        out.flush()


main()
