#!/opt/veriftools/pyvenv/bin/python
"""Runs inside the tooling venv (numpy): drives the REAL pybigtools extension built from the repository.
   usage: py_driver.py MODDIR IN.ndjson OUT.ndjson   -- plumbing only: call values(), encode floats."""
import sys, json, math
sys.path.insert(0, sys.argv[1])
import pybigtools  # noqa


def enc(x):
    x = float(x)
    if math.isnan(x):
        return [0, 1]
    if math.isinf(x):
        return [0, 2]
    return [int(round(x * 1000000)), 0]


def fill(f):
    return float("nan") if f == 99 else float(f)


def main():
    out = open(sys.argv[3], "w")
    handles = {}
    for line in open(sys.argv[2]):
        c = json.loads(line)
        try:
            b = handles.get(c["path"])
            if b is None:
                b = handles[c["path"]] = pybigtools.open(c["path"])
            kw = {"missing": fill(c["missing"]), "oob": fill(c["oob"])}
            if c["bins"]:
                kw.update(bins=c["bins"], summary=c["stat"], exact=True)
            if c.get("arr"):
                # a caller-supplied, previously used output array: its old contents must not show through
                import numpy as np
                n = c["bins"] if c["bins"] else (c["e"] - c["s"])
                kw["arr"] = np.full(n, 777.25, dtype=np.float64)
            v = b.values(c["chrom"], c["s"], c["e"], **kw)
            c["obs"] = {"result": "ok", "out": [enc(x) for x in v]}
        except BaseException as ex:      # pyo3 panics surface as PanicException (BaseException)
            c["obs"] = {"result": "exception", "out": [], "err": "%s: %s" % (type(ex).__name__, str(ex)[:200])}
            handles.pop(c.get("path"), None)
        out.write(json.dumps(c) + "\n")
        out.flush()


main()
