#!/usr/bin/env python3
"""Self-tests of bbi_codec.py:  python3 /verif/pyverif/test_bbi_codec.py   (plain asserts, < 20 s)

 1. every bigWig/bigBed fixture of the project under test decodes without a top-level error;
 2. decode(encode(layout)) reproduces the layout for hand-made layouts spanning every knob;
 3. the decoder survives truncated and corrupted input without raising, and its output is JSON.
"""

import glob
import json
import os
import struct
import sys
import tempfile
import time

sys.path.insert(0, os.path.dirname(os.path.abspath(__file__)))
import bbi_codec                                                    # noqa: E402
from bbi_codec import decode, encode                                # noqa: E402

FIXTURE_DIR = "/repo/bigtools/resources/test"
EXTRA_SAMPLES = ["/repo/pybigtools/tests/data/bigBedExample.bb"]   # kent-written, version 1, optional
CHECKS = [0]


def check(cond, msg):
    CHECKS[0] += 1
    if not cond:
        raise AssertionError(msg)


def errors_in(obj, path="$"):
    """Paths of every "error" member anywhere in a decoded image."""
    out = []
    if isinstance(obj, dict):
        if "error" in obj:
            out.append("%s: %s" % (path, obj["error"]))
        for k, v in obj.items():
            out += errors_in(v, "%s.%s" % (path, k))
    elif isinstance(obj, list):
        for i, v in enumerate(obj):
            out += errors_in(v, "%s[%d]" % (path, i))
    return out


def f32_bits(v):
    """Expected bit pattern of a layout value, computed without the codec's helper."""
    if isinstance(v, dict):
        return v["bits"].upper().rjust(8, "0")
    return "%08X" % struct.unpack("<I", struct.pack("<f", v))[0]


def f64_bits(v):
    return "%016X" % struct.unpack("<Q", struct.pack("<d", v))[0]


# ----------------------------------------------------------------------------------------------
# 1. fixtures
# ----------------------------------------------------------------------------------------------

def test_fixtures():
    paths = sorted(p for ext in ("bigWig", "bigBed", "bb", "bw")
                   for p in glob.glob(os.path.join(FIXTURE_DIR, "*." + ext)))
    seen = 0
    for path in paths + [p for p in EXTRA_SAMPLES if os.path.exists(p)]:
        with open(path, "rb") as f:
            data = f.read()
        if not data:
            continue                                                # bigGenePred.bb is an empty placeholder
        seen += 1
        strict = path.startswith(FIXTURE_DIR)
        img = decode(data)
        json.dumps(img, allow_nan=False)
        check("error" not in img, "%s: %s" % (path, img.get("error")))
        check(img["fileLen"] == len(data), path)
        check(img["kind"] == ("bigwig" if img["header"]["magic"] == "888FFC26" else "bigbed"), path)
        check(all(b["zlibOk"] for b in img["blocks"]), path + ": main block failed to inflate")
        check(all(b["zlibOk"] for z in img["zooms"] for b in z["blocks"]), path + ": zoom block failed to inflate")
        check(len(img["zooms"]) == img["header"]["zoomLevels"], path)
        check(len(img["chromTree"]["chroms"]) == img["chromTree"]["itemCount"], path)
        n_items = sum(len(b["items"]) for b in img["blocks"])
        if strict:
            check(errors_in(img) == [], "%s: %s" % (path, errors_in(img)[:3]))
            check(img["trailer"] == img["header"]["magic"], path + ": trailer differs from magic")
            check(img["index"]["itemCount"] == len(img["index"]["leaves"]), path + ": itemCount != leaves")
            for z in img["zooms"]:
                check(z["index"]["itemCount"] == len(z["index"]["leaves"]), path + ": zoom itemCount")
        else:
            # kent counts *items* in a bigBed index and version 1 files carry no trailing magic
            check(img["index"]["itemCount"] in (len(img["index"]["leaves"]), n_items), path)
            check(img["dataCount"] == n_items, path)
        if os.path.basename(path) == "valid.bigWig":
            # Cross-checks that tie independent parts of the file together.
            check(img["chromTree"]["chroms"] == [{"key": "chr17", "id": 0, "size": 83257441}], path)
            check(n_items == 100000 and len(img["blocks"]) == 98, path)
            check(sum(e - s for b in img["blocks"] for s, e, _ in b["items"]) == img["summary"]["bases"], path)
            check(img["summary"]["max"] == {"i": 14254}, path)
            check(all(b["section"]["count"] == len(b["items"]) for b in img["blocks"]), path)
            # This fixture stores the section count as a u32 (its first block starts at
            # fullDataOffset + 4), so only the low half of the u64 "dataCount" is meaningful.
            check(img["blocks"][0]["offset"] == img["header"]["fullDataOffset"] + 4, path)
            check(img["dataCount"] & 0xFFFFFFFF == len(img["blocks"]), path)
            # bits=True adds bit patterns without changing anything else
            img2 = decode(data, bits=True)
            check(all("bits" in it[2] for b in img2["blocks"] for it in b["items"]), path)
            check(img2["blocks"][3]["items"][7][:2] == img["blocks"][3]["items"][7][:2], path)
    check(seen >= 1, "no fixture found under " + FIXTURE_DIR)
    return seen


# ----------------------------------------------------------------------------------------------
# 2. round trips
# ----------------------------------------------------------------------------------------------

def expected_wig_items(sec):
    """[(s, e, bits)] a bigWig section stands for, from the layout alone."""
    if sec["type"] == 1:
        return [(s, e, f32_bits(v)) for s, e, v in sec["items"]]
    if sec["type"] == 2:
        return [(s, s + sec["span"], f32_bits(v)) for s, v in sec["items"]]
    return [(sec["start"] + i * sec["step"], sec["start"] + i * sec["step"] + sec["span"], f32_bits(v))
            for i, v in enumerate(sec["values"])]


def bbi_raw_section(kind, sec, layout):
    """The uncompressed bytes of one block, packed by hand from Appendix H (independent of the codec)."""
    E = "<" if layout.get("endian", "little") == "little" else ">"
    if kind == "bigbed":
        return b"".join(struct.pack(E + "III", sec["chrom"], s, e) + rest.encode("utf-8") + b"\0"
                        for s, e, rest in sec["items"])
    items = expected_wig_items(sec)
    out = struct.pack(E + "IIIIIBBH", sec["chrom"], items[0][0], max(e for _, e, _ in items),
                      sec.get("step", 0), sec.get("span", 0), sec["type"], 0, len(items))
    for s, e, bits in items:
        fields = {1: (s, e), 2: (s,), 3: ()}[sec["type"]] + (int(bits, 16),)
        out += struct.pack(E + "I" * len(fields), *fields)
    return out


def lex_hull(bounds):
    return list(min((b[0], b[1]) for b in bounds) + max((b[2], b[3]) for b in bounds))


def check_rtree(name, ix, data, n_leaves, opts, data_start, data_end):
    """Structural checks of a decoded R-tree against what the layout asked for."""
    b, gap = opts.get("blockSize", 256), opts.get("gap", 0)
    order = opts.get("nodeOrder", "bfs")
    check(ix["magic"] == "2468ACE0" and ix["blockSize"] == b, name + ": rtree header")
    check(ix["itemCount"] == n_leaves == len(ix["leaves"]), name + ": itemCount")
    check(ix["endFileOffset"] == data_end, name + ": endFileOffset")
    n, depth = -(-max(n_leaves, 1) // b), 1     # number of leaf nodes; each further level divides by b
    while n > 1:
        n, depth = -(-n // b), depth + 1
    check(ix["depth"] == depth, "%s: depth %d, expected %d" % (name, ix["depth"], depth))
    # leaves reference exactly the data region, contiguously and in order
    pos = data_start
    for lf in ix["leaves"]:
        check(lf["dataOffset"] == pos, name + ": leaf does not start where the previous block ended")
        pos += lf["dataSize"]
    check(pos == data_end, name + ": leaves do not cover the data region exactly")
    # every node is within fan-out, root sits right behind the header, nodes tile the index region
    nodes = ix["nodes"]
    check(nodes[0]["offset"] == ix["offset"] + 48, name + ": root not behind header")
    check(all(nd["count"] <= b and nd["count"] == len(nd["items"]) for nd in nodes), name + ": node count")
    by_off = sorted(nodes, key=lambda nd: nd["offset"])
    check(by_off[0] is nodes[0], name + ": a node precedes the root")
    for a, nxt in zip(by_off, by_off[1:]):
        size = 4 + a["count"] * (32 if a["leaf"] else 24)
        check(a["offset"] + size + gap == nxt["offset"], name + ": nodes do not tile the index")
        check(data[a["offset"] + size:nxt["offset"]] == b"\0" * gap, name + ": gap not zero")
    # bounds: each inner item is the lexicographic hull of the child it points to; header = hull of root
    by_offset = {nd["offset"]: nd for nd in nodes}
    for nd in nodes:
        if not nd["leaf"]:
            for it in nd["items"]:
                child = by_offset[it["child"]]
                want = lex_hull([(c["sc"], c["sb"], c["ec"], c["eb"]) for c in child["items"]])
                check([it["sc"], it["sb"], it["ec"], it["eb"]] == want, name + ": inner bounds are not the hull")
    if n_leaves:
        want = lex_hull([(c["sc"], c["sb"], c["ec"], c["eb"]) for c in ix["leaves"]])
        check([ix["startChrom"], ix["startBase"], ix["endChrom"], ix["endBase"]] == want, name + ": header hull")
    # node placement: the decoder lists nodes in depth-first pre-order, so their offsets tell the order
    offs = [nd["offset"] for nd in nodes]
    levels = {}

    def walk(nd, lv):
        levels.setdefault(lv, []).append(nd["offset"])
        if not nd["leaf"]:
            for it in nd["items"]:
                walk(by_offset[it["child"]], lv + 1)
    walk(nodes[0], 0)
    lv = [levels[k] for k in sorted(levels)]
    want = {"dfs": offs,
            "bfs": [o for l in lv for o in l],
            "leaves_first": lv[0] + [o for l in lv[1:][-1:] + lv[1:][:-1] for o in l],
            "reverse_levels": lv[0] + [o for l in reversed(lv[1:]) for o in l]}[order]
    check(want == sorted(want), "%s: nodes not placed in %s order" % (name, order))


def roundtrip(name, layout):
    data, meta = encode(layout, want_meta=True)
    check(encode(layout) == data, name + ": encode is not deterministic")
    img = decode(data, bits=True)
    json.dumps(img, allow_nan=False)
    check(errors_in(img) == [], "%s: %s" % (name, errors_in(img)[:3]))
    kind, hdr = layout["kind"], img["header"]
    magic = "888FFC26" if kind == "bigwig" else "8789F2EB"
    check(img["kind"] == kind and img["endian"] == layout.get("endian", "little"), name + ": kind/endian")
    check(hdr["magic"] == magic and img["trailer"] == magic, name + ": magic/trailer")
    check(hdr["version"] == layout.get("version", 4), name + ": version")
    check(img["fileLen"] == len(data) == meta["fileLen"], name + ": fileLen")
    check(hdr == meta["header"], name + ": meta header differs from decoded header")
    zooms = layout.get("zooms", [])
    check(hdr["zoomLevels"] == len(zooms) == len(img["zooms"]), name + ": zoomLevels")

    # chromosomes: names, ids, sizes; keys sorted; multi-level when asked for
    ids = layout.get("ids") or list(range(len(layout["chroms"])))
    want = sorted((c[0], i, c[1]) for c, i in zip(layout["chroms"], ids))
    got = [(c["key"], c["id"], c["size"]) for c in img["chromTree"]["chroms"]]
    check(got == want, "%s: chroms %r != %r" % (name, got, want))
    ct = img["chromTree"]
    check(ct["magic"] == "78CA8C91" and ct["valSize"] == 8 and ct["itemCount"] == len(want), name + ": chrom tree header")
    check(ct["nodes"][0]["offset"] == ct["offset"] + 32, name + ": chrom tree root")
    check(all(nd["count"] <= ct["blockSize"] for nd in ct["nodes"]), name + ": chrom node over-full")
    bs = layout.get("chromTreeBlockSize", 256)
    check(sum(nd["leaf"] for nd in ct["nodes"]) == max(1, -(-len(want) // bs)), name + ": chrom leaf nodes")
    check(all(nd["count"] <= bs for nd in ct["nodes"] if nd["leaf"]), name + ": chrom leaf fill")
    for nd in ct["nodes"]:                      # separator key = first key of the child
        if not nd["leaf"]:
            kids = {k["offset"]: k for k in ct["nodes"]}
            check(all(it["key"] == kids[it["child"]]["items"][0]["key"] for it in nd["items"]), name + ": separator key")
    pre = [nd["offset"] for nd in ct["nodes"]]
    if layout.get("chromTreeNodeOrder", "bfs") == "dfs":
        check(pre == sorted(pre), name + ": chrom tree not in dfs order")
    check((hdr["chromTreeOffset"] < hdr["fullDataOffset"]) == layout.get("chromTreeFirst", True), name + ": tree position")

    # autoSql, summary, counts
    check(img["autoSql"] == layout.get("autoSql"), name + ": autoSql")
    if "summary" in layout:
        s = layout["summary"]
        if s is None:
            check(img["summary"] is None and hdr["totalSummaryOffset"] == 0, name + ": summary should be absent")
        else:
            check(img["summary"]["bases"] == s["bases"], name + ": summary bases")
            for k in ("min", "max", "sum", "sumSq"):
                check(img["summary"][k]["bits"] == f64_bits(s[k]), name + ": summary " + k)
    sections = layout.get("sections", [])
    n_items = sum(len(b["items"]) for b in img["blocks"])
    want_count = layout.get("dataCount")
    if want_count is None:
        want_count = len(sections) if kind == "bigwig" else n_items
    check(img["dataCount"] == want_count, name + ": dataCount")

    # data blocks: one per section, bit-exact items, correct index entry
    check(len(img["blocks"]) == len(sections) == len(meta["blocks"]), name + ": block count")
    compress = layout.get("compress", False)
    raw_max = 0
    for sec, blk, lf, mb in zip(sections, img["blocks"], img["index"]["leaves"], meta["blocks"]):
        check((blk["offset"], blk["size"]) == (mb["offset"], mb["size"]) == (lf["dataOffset"], lf["dataSize"]),
              name + ": block offsets")
        check(blk["zlibOk"] and blk["rawLen"] == mb["rawLen"], name + ": rawLen")
        check(compress or data[blk["offset"]:blk["offset"] + blk["size"]] == bbi_raw_section(kind, sec, layout),
              name + ": raw block bytes")
        raw_max = max(raw_max, blk["rawLen"])
        if kind == "bigwig":
            want_items = expected_wig_items(sec)
            got_items = [(s, e, v["bits"]) for s, e, v in blk["items"]]
            check(got_items == want_items, "%s: items %r != %r" % (name, got_items[:3], want_items[:3]))
            h = blk["section"]
            check((h["chrom"], h["type"], h["count"]) == (sec["chrom"], sec["type"], len(want_items)), name + ": section header")
            span = (sec["chrom"], want_items[0][0], sec["chrom"], max(e for _, e, _ in want_items))
            check((h["start"], h["end"]) == (span[1], span[3]), name + ": section start/end")
        else:
            want_items = [[sec["chrom"], s, e, rest] for s, e, rest in sec["items"]]
            check(blk["items"] == want_items, name + ": bed items")
            span = (sec["chrom"], min(i[1] for i in want_items), sec["chrom"], max(i[2] for i in want_items))
        check((lf["sc"], lf["sb"], lf["ec"], lf["eb"]) == span, "%s: leaf bounds %r != %r" % (name, lf, span))
    check_rtree(name + " main", img["index"], data, len(sections), layout.get("rtree", {}),
                hdr["fullDataOffset"] + 8, meta["dataEnd"])
    end_of_data = meta["dataEnd"] if layout.get("chromTreeFirst", True) else ct["offset"]
    check(end_of_data == meta["dataEnd"], name + ": data end")
    if layout.get("chromTreeFirst", True):
        check(hdr["fullIndexOffset"] == meta["dataEnd"], name + ": index should follow the data")

    # zooms
    for zl, z, zd in zip(zooms, img["zooms"], img["zoomDir"]):
        check(z["reduction"] == zl["reduction"] == zd["reduction"], name + ": reduction")
        got = [tuple(r[:4]) + tuple(x["bits"] for x in r[4:]) for blk in z["blocks"] for r in blk["items"]]
        want_recs = [tuple(r[:4]) + tuple(f32_bits(x) for x in r[4:]) for r in zl["records"]]
        check(got == want_recs, name + ": zoom records")
        per = zl.get("itemsPerBlock") or max(len(zl["records"]), 1)
        check(all(len(blk["items"]) <= per for blk in z["blocks"]), name + ": zoom block over-full")
        for blk, lf in zip(z["blocks"], z["index"]["leaves"]):
            want = lex_hull([(r[0], r[1], r[0], r[2]) for r in blk["items"]])
            check([lf["sc"], lf["sb"], lf["ec"], lf["eb"]] == want, name + ": zoom leaf bounds")
            raw_max = max(raw_max, blk["rawLen"])
        start = z["dataOffset"] + (4 if zl.get("countPrefix") else 0)
        check_rtree(name + " zoom", z["index"], data, len(z["blocks"]), zl.get("rtree", {}), start, z["indexOffset"])
    check(hdr["uncompressBufSize"] == (raw_max if compress else 0), name + ": uncompressBufSize")
    return img, meta


def wig_sections(n, chroms=1):
    """n small bedGraph sections spread over `chroms` chromosomes, sorted."""
    out = []
    for i in range(n):
        c = i * chroms // n
        base = 100 * i
        out.append({"chrom": c, "type": 1, "items": [[base, base + 10, i + 0.5], [base + 10, base + 35, -1.25 * i]]})
    return out


FIVE = [["chr1", 1000], ["chr10", 2000], ["chr2", 3000], ["chrM", 16571], ["chrX_random_alt", 5000]]


def test_roundtrips():
    n = 0
    # -- a dozen hand-made layouts ------------------------------------------------------------
    weird = {"bits": "7FC00001"}                                    # a NaN with payload must survive bit-exactly
    zoom_recs = [[0, 0, 40, 35, 0.5, 2.5, 40.25, 90.0], [0, 40, 80, 10, 1, 1, 10, 10],
                 [1, 0, 40, 40, -3.5, {"bits": "3DCCCCCD"}, 7, 1e20], [2, 5, 45, 1, 0, 0, 0, 0]]
    layouts = {
        "wig-le-raw-all-types": {
            "kind": "bigwig", "endian": "little", "version": 4, "compress": False, "chroms": FIVE[:2],
            "summary": {"bases": 57, "min": -2.0, "max": 7.25, "sum": 100.5, "sumSq": 0.1},
            "sections": [{"chrom": 0, "type": 1, "items": [[0, 5, 1.5], [5, 9, weird], [20, 30, -0.0]]},
                         {"chrom": 0, "type": 2, "span": 3, "items": [[40, 2], [50, 0.1], [60, 3e38]]},
                         {"chrom": 1, "type": 3, "start": 100, "step": 10, "span": 4, "values": [1, 2.5, {"bits": "00000001"}, -7]}],
            "rtree": {"blockSize": 2, "itemsPerSlot": 1}},
        "wig-be-zlib-all-types": {
            "kind": "bigwig", "endian": "big", "version": 4, "compress": True, "chroms": FIVE, "chromTreeBlockSize": 2,
            "summary": {"bases": 1, "min": 0.0, "max": 0.0, "sum": 0.0, "sumSq": 0.0},
            "sections": [{"chrom": 0, "type": 3, "start": 0, "step": 1, "span": 1, "values": [float(i) for i in range(300)]},
                         {"chrom": 2, "type": 2, "span": 1, "items": [[7, 7.5]]},
                         {"chrom": 4, "type": 1, "items": [[1, 2, 3]]}],
            "rtree": {"blockSize": 4, "nodeOrder": "dfs"},
            "zooms": [{"reduction": 40, "records": zoom_recs, "itemsPerBlock": 2, "rtree": {"blockSize": 2}}]},
        "wig-v1-no-summary": {
            "kind": "bigwig", "version": 1, "summary": None, "chroms": FIVE[:1], "sections": wig_sections(3)},
        "wig-tree-after-data": {
            "kind": "bigwig", "endian": "big", "compress": True, "chromTreeFirst": False, "chroms": FIVE,
            "chromTreeBlockSize": 3, "chromTreeNodeOrder": "dfs", "sections": wig_sections(7, 5),
            "rtree": {"blockSize": 3, "nodeOrder": "leaves_first", "gap": 5},
            "zooms": [{"reduction": 10, "records": zoom_recs, "countPrefix": True},
                      {"reduction": 40, "records": zoom_recs[:1], "rtree": {"blockSize": 2, "nodeOrder": "dfs"}}]},
        "wig-permuted-ids": {
            "kind": "bigwig", "chroms": FIVE, "ids": [3, 1, 4, 0, 2], "chromTreeBlockSize": 1, "keySize": 20,
            "sections": wig_sections(5, 5), "dataCount": 99,
            "summary": {"bases": 2 ** 40, "min": -1e300, "max": 1e300, "sum": 0.1, "sumSq": 2.0 ** 70}},
        "wig-empty": {"kind": "bigwig", "chroms": [], "sections": [], "compress": True},
        "bed-le-raw": {
            "kind": "bigbed", "endian": "little", "compress": False, "chroms": FIVE[:3], "chromTreeBlockSize": 2,
            "autoSql": "table bed\n\"x\"\n(\nstring chrom;\nuint chromStart;\nuint chromEnd;\n)\n",
            "fieldCount": 3, "definedFieldCount": 3,
            # the first item of the first block ends last: a parent bound taken from the last child would be wrong
            "sections": [{"chrom": 0, "items": [[0, 900, ""], [5, 10, ""]]},
                         {"chrom": 0, "items": [[20, 30, ""]]},
                         {"chrom": 1, "items": [[1, 2, ""], [1, 2, ""], [0, 7, ""]]}],
            "rtree": {"blockSize": 2, "itemsPerSlot": 3, "nodeOrder": "reverse_levels"}},
        "bed-be-zlib-rest": {
            "kind": "bigbed", "endian": "big", "compress": True, "chroms": FIVE, "chromTreeBlockSize": 1,
            "chromTreeNodeOrder": "dfs", "autoSql": "",
            "summary": {"bases": 10, "min": 1.0, "max": 2.0, "sum": 12.0, "sumSq": 16.0},
            "sections": [{"chrom": 1, "items": [[10, 20, "name\t0\t+"], [10, 25, "naïve\t1000\t-"]]},
                         {"chrom": 4, "items": [[0, 1, "z\t1\t."]]}],
            "zooms": [{"reduction": 8, "records": zoom_recs, "itemsPerBlock": 3, "crossChrom": True,
                       "rtree": {"blockSize": 2, "nodeOrder": "reverse_levels", "gap": 3}}]},
        "bed-v1-no-summary": {
            "kind": "bigbed", "version": 1, "summary": None, "chroms": FIVE[3:], "ids": [1, 0],
            "sections": [{"chrom": 1, "items": [[1, 2, "a"]]}], "dataCount": 1},
        "bed-tree-after-data": {
            "kind": "bigbed", "chromTreeFirst": False, "chroms": FIVE, "chromTreeBlockSize": 3, "compress": True,
            "sections": [{"chrom": c, "items": [[s, s + 5, "i%d" % s] for s in range(0, 40, 4)]} for c in range(5)],
            "rtree": {"blockSize": 2, "nodeOrder": "leaves_first"},
            "zooms": [{"reduction": 16, "records": zoom_recs, "itemsPerBlock": 1, "rtree": {"blockSize": 2, "nodeOrder": "leaves_first"}}]},
    }
    for name, layout in layouts.items():
        roundtrip(name, layout)
        n += 1

    # -- targeted facts about some of them ----------------------------------------------------
    img, _ = roundtrip("hull", layouts["bed-le-raw"])
    root = img["index"]["nodes"][0]
    check(not root["leaf"] and (root["items"][0]["ec"], root["items"][0]["eb"]) == (0, 900), "hull: first child ends at 900")
    check((img["index"]["endChrom"], img["index"]["endBase"]) == (1, 7), "hull: header end")
    img, _ = roundtrip("neg-zero", layouts["wig-le-raw-all-types"])
    check(img["blocks"][0]["items"][2][2] == {"i": 0, "bits": "80000000"}, "-0.0 keeps its sign bit under bits=True")
    check(img["blocks"][0]["items"][1][2] == {"bits": "7FC00001", "f": "nan"}, "NaN payload")
    check(img["blocks"][1]["items"][2][2]["f"] == struct.unpack("<f", struct.pack("<f", 3e38))[0], "large f32")
    plain = decode(encode(layouts["wig-le-raw-all-types"]))
    check(plain["blocks"][0]["items"][0][2] == {"bits": "3FC00000", "f": 1.5}, "non-integral NUM")
    check(plain["blocks"][1]["items"][0][2] == {"i": 2}, "integral NUM has no bits by default")
    check(plain["summary"]["max"] == {"bits": "401D000000000000", "f": 7.25}, "f64 NUM has 16 hex digits")
    check(plain["summary"]["min"] == {"i": -2}, "integral f64 NUM")
    for bs, depth, declared in ((1, 4, 2), (2, 3, 2), (3, 2, 3), (5, 1, 5)):   # 5 chroms: 1+2+3+5 / 1+2+3 / 1+2 / 1 nodes
        lay = dict(layouts["wig-permuted-ids"], chromTreeBlockSize=bs)
        img, meta = roundtrip("chromtree-bs%d" % bs, lay)
        check(meta["chromTree"]["depth"] == depth, "chrom tree depth with blockSize %d" % bs)
        check(img["chromTree"]["blockSize"] == declared, "declared chrom tree blockSize %d" % bs)
        check(img["chromTree"]["keySize"] == 20, "explicit keySize")
        n += 1

    # -- R-tree: every fan-out 2..4, 1..20 sections, every node order, both kinds of gap ---------
    for fan in (2, 3, 4):
        for count in range(1, 21):
            for k, order in enumerate(("bfs", "dfs", "leaves_first", "reverse_levels")):
                lay = {"kind": "bigwig", "endian": "big" if count % 2 else "little", "compress": bool(count % 3),
                       "chroms": FIVE[:3], "sections": wig_sections(count, 3),
                       "rtree": {"blockSize": fan, "nodeOrder": order, "gap": (count + k) % 3}}
                roundtrip("rtree-b%d-n%d-%s" % (fan, count, order), lay)
                n += 1
    # the four orders really differ once the tree is deep enough (20 leaves, fan-out 2 -> 6 levels)
    variants = set()
    for order in ("bfs", "dfs", "leaves_first", "reverse_levels"):
        lay = {"kind": "bigwig", "chroms": FIVE[:3], "sections": wig_sections(20, 3), "rtree": {"blockSize": 2, "nodeOrder": order}}
        variants.add(encode(lay))
    check(len(variants) == 4, "node orders should give four different files")

    # -- the decoder's image can be fed back: NUMs are accepted as values ---------------------------
    img = decode(encode(layouts["wig-le-raw-all-types"]), bits=True)
    again = dict(layouts["wig-le-raw-all-types"], summary=img["summary"],
                 sections=[{"chrom": b["section"]["chrom"], "type": 1, "items": b["items"]} for b in img["blocks"]])
    img2 = decode(encode(again), bits=True)
    check([b["items"] for b in img2["blocks"]] == [b["items"] for b in img["blocks"]], "re-encode of decoded items")
    check(img2["summary"] == img["summary"], "re-encode of decoded summary")

    # -- invalid layouts are refused, not mis-encoded ---------------------------------------------
    for bad in ({"kind": "bigwig", "chroms": [["toolong", 1]], "keySize": 3},
                {"kind": "bigwig", "chroms": FIVE, "sections": wig_sections(3), "rtree": {"blockSize": 1}},
                {"kind": "bigwig", "sections": [{"chrom": 0, "type": 1, "items": [[0, 1, {"bits": "123456789"}]]}]},
                {"kind": "wiggle"}):
        try:
            encode(bad)
        except ValueError:
            check(True, "")
        else:
            raise AssertionError("layout %r should have been refused" % (bad,))
    return n


# ----------------------------------------------------------------------------------------------
# 3. robustness of the decoder, CLI
# ----------------------------------------------------------------------------------------------

def test_robustness():
    lay = {"kind": "bigbed", "endian": "big", "compress": True, "chroms": FIVE, "chromTreeBlockSize": 2, "autoSql": "table t",
           "sections": [{"chrom": c, "items": [[s, s + 5, "x%d" % s] for s in range(0, 40, 4)]} for c in range(5)],
           "rtree": {"blockSize": 2},
           "zooms": [{"reduction": 16, "records": [[0, 0, 16, 9, 1, 2, 3, 4], [1, 0, 16, 9, 1, 2, 3, 4]], "itemsPerBlock": 1}]}
    good = encode(lay)
    n = 0
    for cut in list(range(0, 200)) + list(range(200, len(good) - 4, 7)):       # truncation at every early offset
        img = decode(good[:cut])
        json.dumps(img, allow_nan=False)
        check(errors_in(img) != [], "truncation to %d bytes went unnoticed" % cut)
        n += 1
    check(decode(b"")["trailer"] is None and "error" in decode(b""), "empty input")
    check(decode(b"abc")["trailer"] is None, "3-byte input has no trailer")
    check("error" in decode(b"\0" * 100) and decode(b"\0" * 100)["kind"] is None, "unknown magic")
    state = 12345                                                               # small LCG: no random module needed
    for _ in range(400):                                                        # random byte corruption
        bad = bytearray(good)
        for _ in range(3):
            state = (state * 1103515245 + 12345) & 0x7FFFFFFF
            pos = state % len(bad)
            state = (state * 1103515245 + 12345) & 0x7FFFFFFF
            bad[pos] = state & 0xFF
        json.dumps(decode(bytes(bad), bits=True), allow_nan=False)
        n += 1
    # an index whose child pointer loops back to the root must terminate and be reported
    img, meta = decode(good), encode(lay, want_meta=True)[1]
    root = meta["index"]["nodes"][0]
    bad = bytearray(good)
    struct.pack_into(">Q", bad, root["offset"] + 4 + 16, root["offset"])
    check(any("reached twice" in e for e in errors_in(decode(bytes(bad)))), "cycle not reported")
    # a damaged zlib stream is reported on its block only
    bad = bytearray(good)
    blk = meta["blocks"][2]
    bad[blk["offset"] + blk["size"] // 2] ^= 0xFF
    img = decode(bytes(bad))
    check([i for i, b in enumerate(img["blocks"]) if not b["zlibOk"]] == [2] and "error" in img["blocks"][2], "zlib damage")
    return n


def test_cli():
    lay = {"kind": "bigwig", "chroms": FIVE[:2], "sections": wig_sections(3, 2), "compress": True}
    with tempfile.TemporaryDirectory() as tmp:
        lp, bp, jp = (os.path.join(tmp, x) for x in ("layout.json", "out.bw", "image.json"))
        with open(lp, "w") as f:
            json.dump(lay, f)
        check(bbi_codec.main(["encode", lp, bp]) == 0, "cli encode")
        with open(bp, "rb") as f:
            check(f.read() == encode(lay), "cli encode output")
        real_stdout = sys.stdout
        try:
            with open(jp, "w") as sys.stdout:
                rc = bbi_codec.main(["decode", bp])
        finally:
            sys.stdout = real_stdout
        check(rc == 0, "cli decode")
        with open(jp) as f:
            check(json.load(f) == json.loads(json.dumps(decode(encode(lay)))), "cli decode output")
    return 1


if __name__ == "__main__":
    t0 = time.time()
    for test in (test_fixtures, test_roundtrips, test_robustness, test_cli):
        t = time.time()
        cases = test()
        print("ok   %-16s %4d cases  %.2f s" % (test.__name__, cases, time.time() - t))
    print("PASS %d checks in %.2f s" % (CHECKS[0], time.time() - t0))
