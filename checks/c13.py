"""C13 — unrepresentable input is refused with an error; every write call returns.
TLC enumerates every small stream (valid, degenerate, invalid: each violation class at every
position); the real writers consume each through the iterator, serial-file and per-chromosome
parallel sources, single and two pass; TLC judges how each call ended with Refusal!RefusalOK."""
import json, random, itertools
from pyverif.core import *


def main():
    run = Run("C13")
    cfgs = ["MC_Refusal_t.cfg", "MC_Refusal_t2.cfg"] if run.thorough else ["MC_Refusal_q.cfg", "MC_Refusal_q2.cfg"]
    beh = []
    for cfg in cfgs:
        r = tlc("MC_Refusal", cfg, os.path.join(run.wd, "mc_" + cfg[:-4]), workers=6, timeout=3000, xmx="8g")
        tlc_must_pass(r, cfg)
        run.add_tlc(cfg[:-4], r)
        beh += r.replays
    must = sum(1 for b in beh if b["must"])
    if must < 50 or len(beh) - must < 50:
        raise ToolError("vacuity: %d must-refuse / %d other streams" % (must, len(beh) - must))
    combos = list(itertools.product(["iter", "file", "parallel"], [1, 2], [1, 0], [1, 3]))
    rng = random.Random(run.seed)
    cases = []
    per = 3 if run.thorough else 2
    for k, b in enumerate(beh):
        if run.thorough and len(b["items"]) == 3 and not b["must"] and False:
            pass
        picks = [combos[(k * 5 + j * 7 + run.seed) % len(combos)] for j in range(per)]
        for (src, pas, srt, th) in picks:
            c = {"kind": b["kind"], "items": b["items"], "NC": b["NC"], "L": b["L"], "source": src, "pass": pas, "sorted": srt,
                 "threads": th, "ips": 1 + (k % 2), "zooms": [2] if k % 3 else [2, 4]}
            cases.append(c)
    obs = run_harness("refuse", cases, run.wd, hang_timeout=6, max_hangs=3)
    obs = [o for o in obs if o["obs"].get("result") not in ("na",)]
    skipped = [o for o in obs if o["obs"].get("result") == "skipped"]
    obs = [o for o in obs if o["obs"].get("result") != "skipped"]
    run.cov["skipped_after_repeated_hangs"] = len(skipped)
    lines = []
    for o in obs:
        o.pop("case", None)
        lines.append(json.dumps(o, separators=(",", ":")))
        run.count_case(json.dumps([o["kind"], o["items"], o["source"], o["pass"], o["sorted"]]), len(o["items"]) >= 2)
    bad = validate_obs("Obs_Refusal", "Obs.cfg", lines, run.wd, "obs")
    run.cov["traces_validated_against_impl"] += len(obs)
    run.cov["must_refuse_streams"] = must
    for i, tag in bad:
        o = obs[i]
        run.violation("C13 %s: kind=%s source=%s pass=%s sorted=%s items=%s -> %s %s" % (
            tag, o["kind"], o["source"], o["pass"], o["sorted"], json.dumps(o["items"]), o["obs"].get("result"), o["obs"].get("err", "")[:120]),
            {"kind": "refuse", "tag": tag, "case": {k: o[k] for k in o if k != "obs"}, "obs": o["obs"]})
    run.cov["rule"] = ("every stream of <= MaxLen items over NC chromosomes (+1 unknown), positions 0..L+1, both file types, from TLC; each replayed "
                       "under several (source, passes, sort requirement, threads); non-trivial = at least two items; distinct by (kind, items, source, pass, sorted)")
    run.sample(obs[len(obs) // 2])
    run.assumptions += ["the parallel source is given run offsets computed by the harness (linear scan), so C13 does not inherit indexer faults (C18)",
                        "which error variant/message is returned is not constrained"]
    return run.finish()


if __name__ == "__main__":
    main_wrap(main)
