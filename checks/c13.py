"""C13 — unrepresentable input is refused with an error; every write call returns.
TLC enumerates every small stream (valid, degenerate, invalid: each violation class at every
position); the real writers consume each through the iterator, serial-file and per-chromosome
parallel sources, single and two pass; TLC judges how each call ended with Refusal!RefusalOK."""
import json, random, itertools
from pyverif.core import *


def main():
    run = Run("C13")
    cfgs = ["MC_Refusal_t.cfg", "MC_Refusal_t2.cfg"] if run.thorough else ["MC_Refusal_q.cfg", "MC_Refusal_q2.cfg"]
    beh = []
    for cfg in cfgs:
        r = tlc("MC_Refusal", cfg, os.path.join(run.wd, "mc_" + cfg[:-4]), workers=6, timeout=3000, xmx="8g")
        tlc_must_pass(r, cfg)
        run.add_tlc(cfg[:-4], r)
        beh += r.replays
    must = sum(1 for b in beh if b["must"])
    if must < 50 or len(beh) - must < 50:
        raise ToolError("vacuity: %d must-refuse / %d other streams" % (must, len(beh) - must))
    combos = list(itertools.product(["iter", "file", "parallel"], [1, 2], [1, 0], [1, 3]))
    rng = random.Random(run.seed)
    cases = []
    per = 3 if run.thorough else 2
    for k, b in enumerate(beh):
        if run.thorough and len(b["items"]) == 3 and not b["must"] and False:
            pass
        picks = [combos[(k * 5 + j * 7 + run.seed) % len(combos)] for j in range(per)]
        for (src, pas, srt, th) in picks:
            c = {"kind": b["kind"], "items": b["items"], "NC": b["NC"], "L": b["L"], "source": src, "pass": pas, "sorted": srt,
                 "threads": th, "ips": 1 + (k % 2), "zooms": [2] if k % 3 else [2, 4], "mshape": (k // 2) % 8}
            cases.append(c)
    obs = run_harness("refuse", cases, run.wd, hang_timeout=6, max_hangs=3)
    obs = [o for o in obs if o["obs"].get("result") not in ("na",)]
    skipped = [o for o in obs if o["obs"].get("result") == "skipped"]
    obs = [o for o in obs if o["obs"].get("result") != "skipped"]
    run.cov["skipped_after_repeated_hangs"] = len(skipped)
    lines = []
    for o in obs:
        o.pop("case", None)
        lines.append(json.dumps(o, separators=(",", ":")))
        run.count_case(json.dumps([o["kind"], o["items"], o["source"], o["pass"], o["sorted"]]), len(o["items"]) >= 2)
    bad = validate_obs("Obs_Refusal", "Obs.cfg", lines, run.wd, "obs")
    run.cov["traces_validated_against_impl"] += len(obs)
    run.cov["must_refuse_streams"] = must
    for i, tag in bad:
        o = obs[i]
        run.violation("C13 %s: kind=%s source=%s pass=%s sorted=%s items=%s -> %s %s" % (
            tag, o["kind"], o["source"], o["pass"], o["sorted"], json.dumps(o["items"]), o["obs"].get("result"), o["obs"].get("err", "")[:120]),
            {"kind": "refuse", "tag": tag, "case": {k: o[k] for k in o if k != "obs"}, "obs": o["obs"]})
    long_part(run)
    run.cov["rule"] = ("every stream of <= MaxLen items over NC chromosomes (+1 unknown), positions 0..L+1, both file types, from TLC; each replayed "
                       "under several (source, passes, sort requirement, threads); non-trivial = at least two items; distinct by (kind, items, source, pass, sorted)")
    run.sample(obs[len(obs) // 2])
    run.assumptions += ["the parallel source is given run offsets computed by the harness (linear scan), so C13 does not inherit indexer faults (C18)",
                        "which error variant/message is returned is not constrained"]
    return run.finish()


def long_part(run):
    """Long run-structured streams through the REAL converters (exit status = the error value): here the parallel
    path gets its chromosome offsets from the bisecting indexer, as in production, so a short foreign run inside a long
    run is only noticed by the per-line checks of the parallel source."""
    from checks import cli_family as cf
    from pyverif.image import chrom_name
    r = tlc("MC_RefusalRuns", "MC_RefusalRuns.cfg", os.path.join(run.wd, "mc_runs"), workers=4, timeout=1200)
    tlc_must_pass(r, "MC_RefusalRuns")
    run.add_tlc("run_structured_streams", r)
    beh = r.replays
    rng = random.Random(run.seed + 13)
    rng.shuffle(beh)
    # strata: well-formed and ordered (accepted), chromosome order wrong with every line well formed, one malformed line
    valid = [b for b in beh if not b["must"]]
    order = [b for b in beh if b["must"] and not b["bad"]]
    malformed = [b for b in beh if b["bad"]]
    beh = valid[:60 if run.thorough else 15] + order[:600 if run.thorough else 80] + malformed[:200 if run.thorough else 30]
    if sum(b["must"] for b in beh) < 20 or sum(1 - b["must"] for b in beh) < 5:
        raise ToolError("vacuity: long streams %d must-refuse of %d" % (sum(b["must"] for b in beh), len(beh)))
    tdir = cf.tools_dir()
    d = os.path.join(run.wd, "long")
    os.makedirs(d, exist_ok=True)
    modes = [["-t", "4", "-p", "yes"], ["-t", "4", "-p", "yes", "--single-pass"], ["-t", "2", "-p", "no"], ["-t", "1"]]

    def one(kb):
        k, b = kb
        kind = "bw" if k % 2 == 0 else "bb"
        pos = {}
        inp = os.path.join(d, "l%d.%s" % (k, "bedGraph" if kind == "bw" else "bed"))
        with open(inp, "w") as f:
            for ri, (c, n) in enumerate(b["runs"], 1):
                p = pos.get(c, 0)
                for i in range(n):
                    if b["bad"] and ri == b["at"] and i == n // 2:
                        # ONE malformed line in the middle of this run (nothing else wrong with it)
                        f.write({1: "%s\n" % chrom_name(c), 2: "%s\tx%d\t%d\t1\n" % (chrom_name(c), p, p + 1), 3: "%s\t%d\n" % (chrom_name(c), p)}[b["bad"]])
                        continue
                    f.write("%s\t%d\t%d\t%s\n" % (chrom_name(c), p, p + 1, "1.5" if kind == "bw" else "n%d" % i))
                    p += 1 + (i % 3 == 0)
                pos[c] = p
        sizes = os.path.join(d, "l%d.sizes" % k)
        with open(sizes, "w") as f:
            for c in (1, 2, 3):
                f.write("%s\t%d\n" % (chrom_name(c), 100000))
        out = []
        for mi, m in enumerate(modes):
            if (k + mi) % 2 and not run.thorough:
                continue
            big = os.path.join(d, "l%d_%d.%s" % (k, mi, kind))
            rc, _, err = cf.run_tool(tdir, "own", "bedgraphtobigwig" if kind == "bw" else "bedtobigbed", [inp, sizes, big] + m, timeout=120)
            made = os.path.exists(big) and os.path.getsize(big) > 0
            res = "hang" if rc == 124 else ("err" if rc != 0 else ("ok" if made else "silent"))
            out.append({"long": 1, "kind": kind, "runs": b["runs"], "bad": b["bad"], "at": b["at"], "must": b["must"], "mode": " ".join(m), "obs": {"result": res, "rc": rc, "err": err[-160:]}})
            try:
                os.remove(big)
            except OSError:
                pass
        os.remove(inp); os.remove(sizes)
        return out
    obs = [o for part in cf.run_parallel(one, list(enumerate(beh))) for o in part]
    lines = []
    for o in obs:
        lines.append(json.dumps(o, separators=(",", ":")))
        run.count_case(json.dumps([o["kind"], o["runs"], o["bad"], o["at"], o["mode"]]), True)
    bad = validate_obs("Obs_Refusal", "Obs.cfg", lines, run.wd, "obs_long", shards=2)
    run.cov["traces_validated_against_impl"] += len(obs)
    run.cov["long_stream_runs"] = len(obs)
    res = {}
    for o in obs:
        key = "%s/must=%d" % (o["obs"]["result"], o["must"])
        res[key] = res.get(key, 0) + 1
    run.cov["long_stream_outcomes"] = res
    for i, tag in bad:
        o = obs[i]
        run.violation("C13 %s (long stream through the real converter): kind=%s runs=%s malformed=%s@run%s mode=%s -> %s" % (tag, o["kind"], json.dumps(o["runs"]), o["bad"], o["at"], o["mode"], json.dumps(o["obs"])),
                      {"kind": "refuse-long", "tag": tag, "case": {k: o[k] for k in o if k != "obs"}, "obs": o["obs"]})


if __name__ == "__main__":
    main_wrap(main)
