"""C09 — every written file is a well-formed BBI file for an independent decoder.
Layouts from the C01/C02 generators (TLC) are written by the real writers; the bytes are decoded by
pyverif/bbi_codec.py (no bigtools code) and projected to an abstract image; TLC evaluates
BBIFormat!WellFormed, Records(img) = input, and the summary / zoom predicates on the decoded content."""
import json
from checks.bbi_family import *
from pyverif import bbi_codec
from pyverif.image import project_image


def main():
    run = Run("C09")
    sizes = lambda b: [b["L"]] * b["NC"]
    step = 10 if run.thorough else 12      # (thorough: a tenth of the much larger enumeration - every file is decoded by the independent codec)
    beh_w = emit(run, "MC_BigWig", ["MC_BigWig_t1.cfg", "MC_BigWig_t2.cfg"] if run.thorough else ["MC_BigWig_q1.cfg", "MC_BigWig_q2.cfg"])
    beh_b = emit(run, "MC_BigBed", ["MC_BigBed_t1.cfg", "MC_BigBed_t2.cfg"] if run.thorough else ["MC_BigBed_q1.cfg", "MC_BigBed_q2.cfg"])
    beh_w = beh_w[run.seed % step::step] + emit_sim(run, "MC_BigWig", "MC_BigWig_deep.cfg", 2000 if run.thorough else 250)
    beh_b = [b for b in beh_b if not any(it[1] == 0 and it[2] == 0 for it in b["items"])]   # (0,0) entries: known finding F11 of C02
    beh_b = beh_b[run.seed % step::step] + [b for b in emit_sim(run, "MC_BigBed", "MC_BigBed_deep.cfg", 2000 if run.thorough else 250)
                                             if not any(it[1] == 0 and it[2] == 0 for it in b["items"])]
    cases = make_cases(beh_w, "bw", sizes, run) + make_cases(beh_b, "bb", sizes, run)
    # more chromosomes than the usual block size of the chromosome tree (256)
    for kind in ("bw", "bb"):
        nch = 300
        cases.append({"kind": kind, "chroms": [50] * nch, "items": [[c, c % 7, c % 7 + 1 + c % 3, 1 + (c % 3 if kind == "bw" else 0)] for c in range(1, nch + 1)],
                      "vmap": "int", "allq": 0, "zq": 0, "mz": [], "msum": {"bases": 0, "sum": 0, "sumsq": 0, "min": 0, "max": 0, "int": 1}, "scale": 1, "asq": "bed3", "long": 0,
                      "opts": {"ips": 2, "bs": 256, "zooms": [8], "zmode": "manual", "compress": 1, "inmem": 1, "rt": "multi", "threads": 2, "pass": 1 + (kind == "bb"), "chan": 100, "sort": "all"}})
    COLS = ["1", "+", "g\u00e9ne", "0,0,255", "\u540d\u524d", "x y", ".", "-7", "a;b", "100"]

    def rest_cols(i):      # the harness's "cols" rest-of-line: k<i> plus (i mod 21) extra tab separated UTF-8 columns
        return "k%d" % i + "".join("\t" + COLS[k % 10] for k in range(i % 21))
    for k, c in enumerate(cases):
        c["dump"] = os.path.join(run.wd, "f%d.bin" % k)
        if k % 5 == 2 and c["opts"].get("zmode") == "manual":
            c["opts"]["maxz"] = [0, 1, 2][(k // 5) % 3]     # max_zooms smaller than the manual list (the list decides)
        if k % 4 == 1 and not c.get("long"):
            # the items go through a text file and the real line reader / parser: LF or CRLF, last line terminated or not
            c["src"], c["eol"], c["final_nl"] = "text", ["lf", "crlf"][(k // 4) % 2], (k // 8) % 2
        if c["kind"] == "bb" and k % 3 == 0:
            c["restmode"] = "cols"     # multi-byte extra columns: byte lengths differ from character counts
    obs = run_harness("bbi", cases, run.wd, hang_timeout=20)
    lines = []
    for k, o in enumerate(obs):
        img = {"error": 1}
        if o["obs"].get("result") == "ok" and os.path.exists(o["dump"]):
            rest_ids = {(rest_cols(i + 1) if o.get("restmode") == "cols" else "k%d" % (i + 1)): i + 1 for i in range(len(o["items"]))}
            img = project_image(bbi_codec.decode(open(o["dump"], "rb").read()), rest_ids)
            os.remove(o["dump"])
        line = {"kind": o["kind"], "items": o["items"], "chroms": o["chroms"], "opts": o["opts"], "result": o["obs"].get("result"), "img": img}
        lines.append(json.dumps(line, separators=(",", ":")))
        run.count_case(json.dumps([o["kind"], o["items"], o["opts"]["ips"], o["opts"]["zooms"], o["opts"]["bs"]]), len(o["items"]) > o["opts"]["ips"])
    bad = validate_obs("Obs_Format", "Obs.cfg", lines, run.wd, "obs")
    run.cov["traces_validated_against_impl"] += len(obs)
    tags = {}
    for i, tag in bad:
        tags[tag] = tags.get(tag, 0) + 1
        o = obs[i]
        run.violation("C09 %s: kind=%s items=%s opts=%s" % (tag, o["kind"], json.dumps(o["items"])[:200], json.dumps(o["opts"])),
                      {"kind": "bbi", "tag": tag, "case": {k: o[k] for k in o if k not in ("obs", "dump")}, "image": json.loads(lines[i])["img"]})
    if tags:
        log("[C09] failing observations by tag: %s" % tags)
    run.cov["rule"] = ("a seeded stratified sample of the exhaustive C01/C02 layouts plus random deeper layouts (5..8 items, 1 item per block, fan-out 2/3), free options paired; "
                       "each file decoded by the independent codec; non-trivial = more items than items_per_slot (several blocks); distinct by (kind, items, ips, zooms, block size)")
    run.sample(json.loads(lines[len(lines) // 2]))
    run.assumptions += ["the byte layout tables of pyverif/bbi_codec.py (independent decoder; checked by its own round-trip self-test) are the trusted base",
                        "bigBed inputs with an entry (0,0) are excluded (known finding F11 of C02/C04)"]
    return run.finish()


if __name__ == "__main__":
    main_wrap(main)
