"""C04 — bigBed range queries miss no overlapping entry and return no disjoint one."""
from checks.bbi_family import *


def histories_part(run):
    """"identically through the caching reader and after any earlier queries": Reader.tla with Kind = "bb" - every history of calls
    (range query, zoom-level query through the same reader, a query naming an absent chromosome, conversion to the caching reader,
    reopening) over two fixed bigBed files (a long entry before short ones, nested and duplicate entries, equal starts; one block per
    entry, fan-out 2 => multi-level indexes): HistoryIndependent / ZoomHistoryIndependent / CacheCoherent model-checked, every history
    replayed on ONE real reader instance and every answer judged (Obs_Reader)."""
    hb = []
    for cfg in (["MC_Reader_t4.cfg", "MC_Reader_q4.cfg", "MC_Reader_q5.cfg"] if run.thorough else ["MC_Reader_q4.cfg", "MC_Reader_q5.cfg"]):
        r = tlc("MC_Reader", cfg, os.path.join(run.wd, "mc_reader_" + cfg[-6:-4]), workers=6, timeout=3000, xmx="8g")
        tlc_must_pass(r, "Reader.tla (bigBed) HistoryIndependent/CacheCoherent (%s)" % cfg)
        run.add_tlc(cfg[:-4], r)
        hb += r.replays
    if len(hb) < 500:
        raise ToolError("vacuity: %d histories" % len(hb))
    hcases = []
    for k, b in enumerate(hb):
        nchrom = max(it[0] for it in b["items"])
        hcases.append({"kind": "bb", "chroms": [6] * nchrom, "items": b["items"], "hist": b["hist"], "vmap": "int", "scale": 1, "zrecs": b.get("zrecs", []),
                       "asq": "bed3", "restmode": "uniq",
                       "opts": {"ips": 1, "bs": b["bs"], "zooms": [2] if b.get("zrecs") else [], "zmode": "manual", "compress": k % 2, "inmem": 1, "threads": 1, "rt": "current", "pass": 1 + k % 2, "chan": 100}})
    hobs = run_harness("reader", hcases, run.wd, hang_timeout=30)
    lines = []
    for o in hobs:
        o.pop("case", None)
        lines.append(json.dumps(o, separators=(",", ":")))
        run.count_case(json.dumps([o["items"], o["hist"]]), any(h["op"] in ("cached", "reopen", "zoom") for h in o["hist"]))
    bad = validate_obs("Obs_Reader", "Obs.cfg", lines, run.wd, "hist")
    run.drift += len(validate_obs.last_drift)
    run.cov["traces_validated_against_impl"] += len(hobs)
    run.cov["histories"] = len(hobs)
    run.cov["histories_zoom_then_data"] = sum(1 for o in hobs if any(h["op"] == "zoom" and any(g["op"] == "interval" for g in o["hist"][i + 1:]) for i, h in enumerate(o["hist"])))
    for i, tag in bad:
        o = hobs[i]
        run.violation("C04 history %s: %s" % (json.dumps(o["hist"])[:300], tag), {"kind": "reader", "tag": tag, "case": {k: o[k] for k in o if k != "obs"}, "obs": o["obs"]})


def main():
    run = Run("C04")
    cfgs = ["MC_BigBed_t1.cfg", "MC_BigBed_t2.cfg"] if run.thorough else ["MC_BigBed_q1.cfg", "MC_BigBed_q2.cfg"]
    sizes = lambda b: [b["L"]] * b["NC"]

    def build(beh, k0):
        if run.thorough:
            beh = beh[run.seed % 2::2]      # all ranges are queried on every file: a seeded half of the thorough enumeration per run (time)
        cases = make_cases(beh, "bb", sizes, run, allq=1, k0=k0)
        for k, c in enumerate(cases):
            c["cached"] = k % 2        # every other file: all queries in sequence through one caching reader
            if k % 4 >= 2:
                c["qorder"] = "shuffle"   # ... half of them in a seeded permutation (non-monotonic, chromosomes interleaved)
            if k % 11 == 5:
                c["scale"] = 2 ** 28     # positions up to 3.2e9: beyond 2^31, below 2^32 (comparisons must be unsigned 32-bit)
        return cases
    def nt(o):
        # a block whose largest end is not the last entry's end
        its = o["items"]
        return any(its[i][0] == its[i + 1][0] and its[i][2] > its[i + 1][2] for i in range(len(its) - 1))
    desc = lambda o: {"result": o["obs"].get("result"), "err": o["obs"].get("err"),
                      "failing_queries": [q for q in o["obs"].get("queries", [])][:60]}
    # exhaustive layouts, then deeper ones (5..8 entries, one entry per block, fan-out 2 => 3- and 4-level indexes) by random walks
    obs = run_batches(run, "C04", "MC_BigBed", cfgs, "Obs_BigBed", nt, desc, build, sims=[("MC_BigBed_deep.cfg", 6000 if run.thorough else 500)], size=150000)
    histories_part(run)
    run.cov["queries_per_file"] = "all 0 <= s < e <= L on every chromosome"
    run.cov["rule"] = ("every start-sorted layout within the TLC bounds x ips {1,2(,3)} x block size {2,3}, ALL ranges queried; non-trivial = an entry "
                       "whose end exceeds the end of the next entry of its chromosome; distinct by (items, ips, zooms)")
    run.sample({"items": obs[len(obs) // 3]["items"], "opts": obs[len(obs) // 3]["opts"], "queries": obs[len(obs) // 3]["obs"].get("queries", [])[:3]})
    return run.finish()


if __name__ == "__main__":
    main_wrap(main)
