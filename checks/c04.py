"""C04 — bigBed range queries miss no overlapping entry and return no disjoint one."""
from checks.bbi_family import *


def main():
    run = Run("C04")
    cfgs = ["MC_BigBed_t1.cfg", "MC_BigBed_t2.cfg"] if run.thorough else ["MC_BigBed_q1.cfg", "MC_BigBed_q2.cfg"]
    sizes = lambda b: [b["L"]] * b["NC"]

    def build(beh, k0):
        cases = make_cases(beh, "bb", sizes, run, allq=1, k0=k0)
        for k, c in enumerate(cases):
            c["cached"] = k % 2        # every other file: all queries in sequence through one caching reader
            if k % 4 >= 2:
                c["qorder"] = "shuffle"   # ... half of them in a seeded permutation (non-monotonic, chromosomes interleaved)
            if k % 11 == 5:
                c["scale"] = 2 ** 28     # positions up to 3.2e9: beyond 2^31, below 2^32 (comparisons must be unsigned 32-bit)
        return cases
    def nt(o):
        # a block whose largest end is not the last entry's end
        its = o["items"]
        return any(its[i][0] == its[i + 1][0] and its[i][2] > its[i + 1][2] for i in range(len(its) - 1))
    desc = lambda o: {"result": o["obs"].get("result"), "err": o["obs"].get("err"),
                      "failing_queries": [q for q in o["obs"].get("queries", [])][:60]}
    # exhaustive layouts, then deeper ones (5..8 entries, one entry per block, fan-out 2 => 3- and 4-level indexes) by random walks
    obs = run_batches(run, "C04", "MC_BigBed", cfgs, "Obs_BigBed", nt, desc, build, sims=[("MC_BigBed_deep.cfg", 6000 if run.thorough else 500)], size=150000)
    run.cov["queries_per_file"] = "all 0 <= s < e <= L on every chromosome"
    run.cov["rule"] = ("every start-sorted layout within the TLC bounds x ips {1,2(,3)} x block size {2,3}, ALL ranges queried; non-trivial = an entry "
                       "whose end exceeds the end of the next entry of its chromosome; distinct by (items, ips, zooms)")
    run.sample({"items": obs[len(obs) // 3]["items"], "opts": obs[len(obs) // 3]["opts"], "queries": obs[len(obs) // 3]["obs"].get("queries", [])[:3]})
    return run.finish()


if __name__ == "__main__":
    main_wrap(main)
