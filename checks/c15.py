"""C15 — merging and gap filling preserve the per-base signal (library part; the merge tool part
is added by the CLI family)."""
import json
from pyverif.core import *


def lib_part(run):
    beh = []
    cfgs = ["MC_Merge_q1.cfg", "MC_Merge_q2.cfg"] + (["MC_Merge_t1.cfg"] if run.thorough else [])
    for cfg in cfgs:
        r = tlc("MC_Merge", cfg, os.path.join(run.wd, "mc_" + cfg[:-4]), workers=6, timeout=3000, xmx="8g")
        tlc_must_pass(r, "Merge.tla MergeMech => MergeOK (%s)" % cfg)
        run.add_tlc(cfg[:-4], r)
        beh += r.replays
    for cfg, num, depth in (("MC_Merge_sim.cfg", 12000 if run.thorough else 1200, 20), ("MC_Merge_sim4.cfg", 12000 if run.thorough else 800, 20)):
        r = tlc("MC_Merge", cfg, os.path.join(run.wd, "sim_" + cfg[:-4]), workers=4, timeout=3000, simulate=num, depth=depth, seed=run.seed, xmx="4g")
        tlc_must_pass(r, "Merge.tla simulation (%s)" % cfg)
        run.add_tlc("simulate_" + cfg[:-4], r)
        beh += r.replays
    # every value multiplied by 2^vexp (exactly): ordinary magnitudes, 2^-70 (about 8e-22) and 2^60
    cases = [dict(b, mode="many", vexp=[0, 0, -70, 60][k % 4]) for k, b in enumerate(beh)]
    r = tlc("MC_MergeSmall", "MC_MergeSmall.cfg", os.path.join(run.wd, "mc_small"), workers=6, timeout=3000, xmx="8g")
    tlc_must_pass(r, "MC_MergeSmall")
    run.add_tlc("merge_into_and_fill_inputs", r)
    small = r.replays
    if not run.thorough:
        small = small[::3]
    cases += small
    if len(cases) < 2000:
        raise ToolError("vacuity: %d merge cases" % len(cases))
    obs = run_harness("merge", cases, run.wd, hang_timeout=20)
    lines = []
    for o in obs:
        o.pop("case", None)
        lines.append(json.dumps(o, separators=(",", ":")))
        if o["mode"] == "many":
            W = o["W"]
            crossing = any(it[0] // W != (it[1] - 1) // W for st in o["streams"] for it in st)
            run.count_case(json.dumps([o["streams"], W]), crossing and len(o["streams"]) >= 2)
        else:
            run.count_case(json.dumps({k: o[k] for k in o if k != "obs"}), True)
    bad = validate_obs("Obs_Merge", "Obs.cfg", lines, run.wd, "obs")
    run.drift += len(validate_obs.last_drift)
    run.cov["traces_validated_against_impl"] += len(obs)
    tags = {}
    for i, tag in bad:
        tags[tag] = tags.get(tag, 0) + 1
        o = obs[i]
        run.violation("C15 %s: %s -> %s" % (tag, json.dumps({k: o[k] for k in o if k not in ("obs", "mech")})[:300], json.dumps(o["obs"])[:300]),
                      {"kind": "merge", "tag": tag, "case": {k: o[k] for k in o if k != "obs"}, "obs": o["obs"]})
    if tags:
        log("[C15] failing observations by tag: %s" % tags)
    run.sample(obs[len(beh) // 2])
    return obs


def main():
    run = Run("C15")
    lib_part(run)
    try:
        from checks import cli_family
        cli_family.merge_tool_part(run)
    except ImportError:
        run.assumptions.append("merge tool part not built yet")
    run.cov["rule"] = ("streams built by TLC (exhaustive small bounds + random walks with 3 streams x <=3 values x values {-1,0,1,2}) replayed through merge_sections_many under a window "
                       "embedding (model window W = real 50,000-base window); merge_into on all overlapping pairs on 0..5; fill / fill_start_to_end on all streams of <= 2 values; "
                       "non-trivial (merge) = >= 2 streams and a value crossing a window edge")
    run.assumptions += ["integer values so that sums are exact"]
    return run.finish()


if __name__ == "__main__":
    main_wrap(main)
