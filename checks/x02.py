"""X02 (extra, not a listed property) — the BED-driven filters of the command line:
bigwigtobedgraph --overlap-bed, bigbedtobed --overlap-bed, `bigtools intersect`, `bigtools chromintersect`.
MC_Filters draws region lists; the real binaries run on files written by the real converters; TLC judges
every output with Filters.tla (the C03 / C04 range-query predicates, one piece per region, in order)."""
import json
from pyverif.core import *
from pyverif.image import chrom_name, chrom_idx
from checks import cli_family as cf


def main():
    run = Run("X02")
    seen, beh = set(), []
    for k in range(3 if run.thorough else 1):
        r = tlc("MC_Filters", "MC_Filters.cfg", os.path.join(run.wd, "sim%d" % k), workers=4, timeout=1200, simulate=4000 if run.thorough else 1200, depth=8, seed=run.seed + k)
        tlc_must_pass(r, "MC_Filters")
        run.add_tlc("region_lists_%d" % k, r)
        for b in r.replays:
            key = json.dumps(b, sort_keys=True)
            if key not in seen:
                seen.add(key); beh.append(b)
    if len(beh) < 300:
        raise ToolError("vacuity: %d region lists" % len(beh))
    tdir = cf.tools_dir()
    d = os.path.join(run.wd, "files")
    os.makedirs(d, exist_ok=True)
    data = {}
    for ds in (1, 2):
        for kind in ("bw", "bb"):
            items = cf.text_items(kind, ds)
            inp, sizes, size = cf.write_inputs(d, kind, items, "x2%s%d" % (kind, ds))
            big = os.path.join(d, "x2_%d.%s" % (ds, kind))
            rc, _, err = cf.run_tool(tdir, "own", "bedgraphtobigwig" if kind == "bw" else "bedtobigbed", [inp, sizes, big] + (["--block-size", "3", "--items-per-slot", "4"] if ds == 2 else []))
            if rc != 0:
                raise ToolError("cannot prepare %s: %s" % (big, err[-300:]))
            rest_ids = {cf.bed_rest(it[3]): it[3] for it in items} if kind == "bb" else {}
            data[(kind, ds)] = (items, big, rest_ids, sorted({it[0] for it in items}))

    def one(kb):
        k, b = kb
        tool = b["tool"]
        kind = "bw" if tool == "overlap-bw" else "bb"
        items, big, rest_ids, chroms = data[(kind, b["ds"])]
        bed = os.path.join(d, "r_%d.bed" % k)
        with open(bed, "w") as f:
            for i, r in enumerate(b["regions"], 1):
                f.write("%s\t%d\t%d\tline%d\n" % (chrom_name(r[0]), r[1], r[2], i))
        out = os.path.join(d, "o_%d.txt" % k)
        regions = b["regions"]
        obs = {"rc": 0, "parsed": 1, "out": [], "kept": [], "err": ""}
        if tool in ("overlap-bw", "overlap-bb"):
            # regions on chromosomes the file does not have are outside what these options document
            regions = [r for r in regions if r[0] in chroms]
            with open(bed, "w") as f:
                for i, r in enumerate(regions, 1):
                    f.write("%s\t%d\t%d\tline%d\n" % (chrom_name(r[0]), r[1], r[2], i))
            rc, _, err = cf.run_tool(tdir, "own", "bigwigtobedgraph" if kind == "bw" else "bigbedtobed", [big, out, bed])
            back = cf.parse_back(kind, out, rest_ids) if rc == 0 else []
            obs.update(rc=rc, parsed=0 if back is None else 1, out=back or [], err=err[-200:])
        elif tool == "intersect":
            rc, so, err = cf.run_tool(tdir, "multicall", "intersect", [bed, big])
            open(out, "w").write(so)
            back = cf.parse_back("bb", out, rest_ids) if rc == 0 else []
            obs.update(rc=rc, parsed=0 if back is None else 1, out=back or [], err=err[-200:])
        else:
            rc, _, err = cf.run_tool(tdir, "multicall", "chromintersect", [bed, big, out])
            kept, parsed = [], 1
            try:
                want = open(bed).read().splitlines()
                for line in open(out).read().splitlines():
                    kept.append(want.index(line) + 1)      # lines are unique ("line<i>"): byte-identical line -> its number
            except Exception:
                parsed = 0
            obs.update(rc=rc, parsed=parsed, kept=kept, err=err[-200:])
        for p in (bed, out):
            try:
                os.remove(p)
            except OSError:
                pass
        return {"tool": tool, "ds": b["ds"], "regions": regions, "items": items, "chroms": chroms, "obs": obs}
    obs = cf.run_parallel(one, list(enumerate(beh)))
    corrupt = os.environ.get("X02_CORRUPT")
    if corrupt:
        # binding self-test (see DESIGN): damage ONE observation; the validation must reject it
        if corrupt == "drop-line":
            o = next(o for o in obs if o["tool"] == "overlap-bw" and len(o["obs"]["out"]) >= 2); o["obs"]["out"].pop(0)
        elif corrupt == "unclipped":
            o = next(o for o in obs if o["tool"] == "overlap-bb" and o["obs"]["out"]); o["obs"]["out"][0][1] -= 1
        elif corrupt == "wrong-order":
            o = next(o for o in obs if o["tool"] == "intersect" and len({tuple(x) for x in o["obs"]["out"]}) >= 2 and len(o["regions"]) >= 2); o["obs"]["out"].reverse()
        elif corrupt == "kept-extra":
            o = next(o for o in obs if o["tool"] == "chromintersect" and len(o["obs"]["kept"]) < len(o["regions"]))
            o["obs"]["kept"] = list(range(1, len(o["regions"]) + 1))
        log("[X02] CORRUPTED one observation (%s): %s" % (corrupt, json.dumps({k: o[k] for k in ("tool", "regions", "obs")})[:300]))
    lines, nonempty = [], 0
    for o in obs:
        lines.append(json.dumps(o, separators=(",", ":")))
        run.count_case(json.dumps([o["tool"], o["ds"], o["regions"]]), len(o["regions"]) > 1)
        nonempty += 1 if (o["obs"]["out"] or o["obs"]["kept"]) else 0
    bad = validate_obs("Obs_Filters", "Obs.cfg", lines, run.wd, "obs", shards=6)
    run.cov["traces_validated_against_impl"] += len(obs)
    tags = {}
    for i, tag in bad:
        tags[tag] = tags.get(tag, 0) + 1
        o = obs[i]
        run.violation("X02 %s: tool=%s regions=%s -> %s" % (tag, o["tool"], json.dumps(o["regions"]), json.dumps(o["obs"])[:300]),
                      {"kind": "filters", "tag": tag, "case": {k: o[k] for k in o if k != "obs"}, "obs": o["obs"]})
    if tags:
        log("[X02] failing observations by tag: %s" % tags)
    by = {}
    for o in obs:
        by[o["tool"]] = by.get(o["tool"], 0) + 1
    run.cov["runs_by_tool"] = by
    run.cov["runs_with_nonempty_output"] = nonempty
    if nonempty < len(obs) // 4:
        raise ToolError("vacuity: only %d of %d runs produced output" % (nonempty, len(obs)))
    run.cov["rule"] = "region lists of 1..4 regions (chromosomes 1..4, starts 0..12, lengths 1..5) drawn by random walks of MC_Filters x 4 tools; non-trivial = more than one region"
    run.sample(obs[0]); run.sample(obs[len(obs) // 2])
    return run.finish()


if __name__ == "__main__":
    main_wrap(main)
