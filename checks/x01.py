"""X01 (extra, not a listed property) — the Python-visible object model of pybigtools: open / close /
context manager, reader calls on open and closed objects, record and zoom-record iterators, one-shot
writers, files written by the Python writer and read back.  MC_PyApi draws call sequences from
spec/PyApi.tla; the real extension executes them; Trace_PyApi validates the recorded calls."""
import json, shutil, subprocess, random
from pyverif.core import *
from checks.c20 import build_extension, VENV_PY

W1 = [[1, 1, 3, 2], [1, 3, 4, 5], [1, 6, 9, 1], [2, 0, 2, 3]]
B1 = [[1, 1, 6, 1], [1, 2, 4, 2], [1, 2, 4, 3], [1, 8, 9, 4], [2, 0, 3, 5]]


RANGES = [(-1, 3), (0, 12), (2, 5), (4, 6), (0, 1), (5, 10), (-2, 2), (8, 12), (3, 9), (0, 6)]
EXT = {1: "bw", 2: "bb", 3: "bw", 4: "bb", 5: "txt"}


def random_sequence(rng, data, n=16):
    """A random call sequence over the same vocabulary (the driver's own stimuli; the specification only
    judges them).  Tracks just enough to keep writers away from paths a reader or iterator may hold."""
    seq, hp, ip, wp, touched = [], {}, {}, {}, set()
    for _ in range(n):
        op = rng.choices(["open", "close", "exit", "attr", "chrom1", "records", "zoomrecs", "values", "next", "wopen", "wwrite", "wclose"],
                         [5, 2, 1, 4, 1, 4, 4, 3, 8, 2, 3, 1])[0]
        h, i, w = rng.choice([1, 2]), rng.choice([1, 2]), 1
        c = rng.choice([1, 1, 2, 2, 3])
        s, e = rng.choice(RANGES)
        if op == "open":
            p = rng.choice([1, 2, 3, 4, 5])
            via = rng.choice(["path", "path", "filelike"])
            if via == "filelike" and p in (3, 4) and p not in wp.values():
                via = "path"          # nothing to read into a file-like object: the path form (refused: does not exist)
            if via == "filelike" and p in (3, 4):
                continue              # whether the file exists depends on earlier writes: left to the TLC-drawn sequences
            seq.append({"op": "open", "h": h, "p": p, "via": via})
            hp[h] = p
            touched.add(p)       # a failed open leaves the handle on its old file: never write to a path any open() named
        elif op in ("close", "exit"):
            seq.append({"op": op, "h": h})
        elif op == "attr":
            seq.append({"op": rng.choice(["isbw", "isbb", "chroms", "zooms", "info", "sql"]), "h": h})
        elif op == "chrom1":
            seq.append({"op": op, "h": h, "c": c})
        elif op == "records":
            seq.append({"op": op, "h": h, "i": i, "c": c, "s": s, "e": e})
            ip[i] = hp.get(h)
        elif op == "zoomrecs":
            seq.append({"op": op, "h": h, "i": i, "c": c, "s": s, "e": e, "lvl": rng.choice([2, 4, 3, 10, 40])})
            ip[i] = hp.get(h)
        elif op == "values":
            seq.append({"op": op, "h": h, "c": c, "s": s, "e": e})
        elif op == "next":
            seq.append({"op": op, "i": i})
        elif op == "wopen":
            p = rng.choice([3, 4, 3, 4, 1, 2, 5])
            seq.append({"op": op, "w": w, "p": p})
            if EXT[p] != "txt":
                wp[w] = p
        elif op == "wwrite":
            if w not in wp or wp[w] in touched:
                continue
            ds = rng.choice([1, 2, 3])
            seq.append({"op": op, "w": w, "ds": ds, "good": rng.choice([0, 1, 1, 1]), "items": data[EXT[wp[w]]][ds - 1]})
        else:
            seq.append({"op": op, "w": w})
    return seq


def main():
    run = Run("X01")
    moddir = build_extension()
    build_harness()
    initdir = os.path.join(run.wd, "init")
    os.makedirs(initdir)
    wc = []
    for kind, items, name in (("bw", W1, "a.bw"), ("bb", B1, "b.bb")):
        wc.append({"kind": kind, "chroms": [10, 6], "items": items, "vmap": "int", "scale": 1, "allq": 0, "zq": 0, "mz": [], "asq": "bed3", "long": 0,
                   "opts": {"ips": 2, "bs": 2, "zooms": [2, 4], "zmode": "manual", "compress": 1, "inmem": 1, "rt": "current", "threads": 1, "pass": 1, "chan": 100},
                   "dump": os.path.join(initdir, name)})
    for o in run_harness("bbi", wc, run.wd, shards=1):
        if o["obs"].get("result") != "ok":
            raise ToolError("cannot prepare the data files: %s" % o["obs"])
    shutil.copyfile(os.path.join(initdir, "a.bw"), os.path.join(initdir, "e.txt"))
    if run.thorough:
        # design level: the whole reachable object-state space (1 handle, 1 iterator, 1 writer, 5 paths): ReaderCoherent / IterCoherent / TypeOK
        r = tlc("MC_PyApi", "MC_PyApi_bfs.cfg", os.path.join(run.wd, "bfs"), workers=6, timeout=2400, xmx="8g", collect_replays=False)
        tlc_must_pass(r, "MC_PyApi (exhaustive object-state space)")
        run.add_tlc("object_state_space_exhaustive", r)
    seqs, seen = [], set()
    rounds = 6 if run.thorough else 2
    for k in range(rounds):
        r = tlc("MC_PyApi", "MC_PyApi.cfg", os.path.join(run.wd, "sim%d" % k), workers=4, timeout=1800, simulate=200 if run.thorough else 60, depth=14, seed=run.seed + k, xmx="4g")
        tlc_must_pass(r, "MC_PyApi")
        run.add_tlc("simulate_call_sequences_%d" % k, r)
        for b in r.replays:
            key = json.dumps(b, sort_keys=True)
            if key not in seen:
                seen.add(key); seqs.append(b)
    data = None
    for x in r.prints:
        m = re.match(r'^<<"DATA", "(.*)">>$', x)
        if m:
            data = json.loads(m.group(1).replace('\\"', '"'))
    if not data:
        raise ToolError("MC_PyApi did not print its data sets")
    n_tlc = len(seqs)
    rng = random.Random(run.seed)
    for k in range(6000 if run.thorough else 1500):
        seqs.append(random_sequence(rng, data))
    run.cov["sequences_from_tlc_walks"] = n_tlc
    run.cov["sequences_from_random_driver"] = len(seqs) - n_tlc
    if n_tlc < 200:
        raise ToolError("vacuity: %d call sequences" % len(seqs))
    sp = os.path.join(run.wd, "seqs.ndjson")
    with open(sp, "w") as f:
        for s in seqs:
            f.write(json.dumps(s) + "\n")
    tp = os.path.join(run.wd, "trace.ndjson")
    p = subprocess.run([VENV_PY, os.path.join(ROOT, "pyverif", "pyapi_driver.py"), moddir, sp, tp, initdir, os.path.join(run.wd, "pw")],
                       stdout=subprocess.PIPE, stderr=subprocess.PIPE, timeout=3000)
    if p.returncode != 0:
        raise ToolError("pyapi driver failed: %s" % p.stderr.decode(errors="replace")[-1500:])
    lines = open(tp).read().splitlines()
    corrupt = os.environ.get("X01_CORRUPT")
    if corrupt:
        # binding self-test (see DESIGN): damage ONE recorded call; the validation must reject it
        def first(pred):
            return next(i for i, l in enumerate(lines) if l != '{"op": "reset"}' and pred(json.loads(l)))
        if corrupt == "drop-close":
            i = first(lambda o: o["op"] == "close"); lines[i] = '{"op": "skip"}'
        elif corrupt == "closed-answers":
            i = first(lambda o: o.get("cls") == "closed" and o["op"] == "chroms"); o = json.loads(lines[i]); o["cls"] = "ok"; o["val"] = [[1, 10], [2, 6]]; lines[i] = json.dumps(o)
        elif corrupt == "item":
            i = first(lambda o: o["op"] == "next" and o.get("cls") == "ok" and len(o["item"]) == 3); o = json.loads(lines[i]); o["item"][1] += 1; lines[i] = json.dumps(o)
        elif corrupt == "zoom-sum":
            i = first(lambda o: o["op"] == "next" and o.get("cls") == "ok" and len(o["item"]) == 7 and o["item"][2] > 0); o = json.loads(lines[i]); o["item"][5] += 1; lines[i] = json.dumps(o)
        elif corrupt == "early-stop":
            i = first(lambda o: o["op"] == "next" and o.get("cls") == "ok"); o = json.loads(lines[i]); o["cls"] = "stop"; o.pop("item"); lines[i] = json.dumps(o)
        elif corrupt == "stale-file":
            i = first(lambda o: o["op"] == "open" and o.get("cls") == "ok" and o["p"] in (3, 4)); o = json.loads(lines[i]); o["kind"] = "bb" if o["kind"] == "bw" else "bw"; lines[i] = json.dumps(o)
        log("[X01] CORRUPTED recorded call %d (%s): %s" % (i + 1, corrupt, lines[i][:200]))
        open(tp, "w").write("\n".join(lines) + "\n")
    starts = [i for i, l in enumerate(lines) if l == '{"op": "reset"}']
    r = tlc("Trace_PyApi", "Trace_PyApi.cfg", os.path.join(run.wd, "tlc_trace"), env={"TRACE": tp}, workers=1, timeout=3000, xmx="6g", collect_replays=False, dfs=True)
    run.add_tlc("trace_validation", r)
    if r.violation:
        raise ToolError("trace spec invariant violated (model error?):\n" + r.violation[-1500:])
    if not any(x.startswith('<<"CHECKED"') for x in r.prints):
        raise ToolError("trace validation gave no verdict:\n" + r.out[-2000:])
    run.cov["traces_validated_against_impl"] = len(seqs)
    run.cov["calls_recorded"] = len(lines) - len(starts)
    ops = {}
    for l in lines:
        o = json.loads(l)
        k = "%s:%s" % (o["op"], o.get("cls", ""))
        ops[k] = ops.get(k, 0) + 1
    run.cov["calls_by_op_and_outcome"] = ops
    import bisect
    done = set()
    for x in r.prints:
        if x.startswith('<<"BAD"') or x.startswith('<<"ILLFORMED"'):
            parts = [t.strip().strip('"') for t in x.strip("<>").split(",")]
            ln = int(parts[1])
            si = bisect.bisect_right(starts, ln - 1) - 1
            if si in done:
                continue
            done.add(si)
            end = starts[si + 1] if si + 1 < len(starts) else len(lines)
            calls = [json.loads(l) for l in lines[starts[si] + 1:end]]
            if parts[0] == "ILLFORMED":
                raise ToolError("ill-formed recorded call at line %d: %s" % (ln, lines[ln - 1]))
            run.violation("X01 call #%d of the sequence: %s; the specification requires outcome class %r" % (ln - 1 - starts[si], lines[ln - 1][:300], parts[3]),
                          {"kind": "pyapi", "sequence": seqs[si], "recorded": calls, "bad_call": ln - 1 - starts[si]})
    for s in seqs:
        run.count_case(json.dumps(s, sort_keys=True), True)
    run.cov["rule"] = ("call sequences of 12 calls drawn by random walks of MC_PyApi over 2 reader handles, 2 iterators, 1 writer and 5 paths (every extension of each walk's "
                       "11-call prefix by one enabled call); every call executed on the real extension and judged by Trace_PyApi")
    run.sample(seqs[0])
    return run.finish()


if __name__ == "__main__":
    main_wrap(main)
