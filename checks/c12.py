"""C12 — the staging buffer delivers every byte once, in order, under every interleaving.

1. TLC verifies TempFileBuffer.tla (safety over all interleavings, liveness under weak fairness).
2. TLC emits every complete schedule (MC_TFB); each is replayed on the real TempFileBuffer from a
   single driver (each shared access is one public call), in both staging modes.
3. The recorded events are validated by TLC against the specification's actions (Trace_TFB).
4. Threaded runs (two real threads, seeded pauses) are recorded as begin/end events and validated
   with the linearisation trace specification (Trace_TFB_Lin)."""
import json, os, random, shutil
from pyverif.core import *


def flatten(obs_list):
    """one trace file: reset event + events per schedule; returns (lines, owner index per line)"""
    lines, owner = [], []
    for k, o in enumerate(obs_list):
        lines.append(json.dumps({"ev": "reset", "pp": o["pp"], "cp": o["cp"], "n": 0, "tag": "none", "val": [],
                                 "ready": 2, "rk": 0, "real": []}, separators=(",", ":")))
        owner.append(k)
        for e in o["obs"]["events"]:
            lines.append(json.dumps(e, separators=(",", ":")))
            owner.append(k)
    return lines, owner


def validate_traces(run, obs_list, module, cfg, name, max_report=5, dfs=False, relax=False):
    """TLC trace validation of concatenated schedules; a rejected schedule is reported and removed,
    the rest is validated again (so one defect does not hide the others)."""
    pending = list(obs_list)
    rejected = []
    rounds = 0
    while pending and len(rejected) < max_report:
        rounds += 1
        lines, owner = flatten(pending)
        path = os.path.join(run.wd, "%s_%d.ndjson" % (name, rounds))
        with open(path, "w") as f:
            f.write("\n".join(lines) + "\n")
        r = tlc(module, cfg, os.path.join(run.wd, "tlc_%s_%d" % (name, rounds)), env={"TRACE": path, "RELAX": "1" if relax else "0"},
                workers=1, timeout=1200, xmx="4g", dfs=dfs, collect_replays=False)
        run.add_tlc("%s_round%d" % (name, rounds), r)
        acc = [p for p in r.prints if p.startswith('<<"ACCEPTED"')]
        rej = [p for p in r.prints if p.startswith('<<"REJECTED"')]
        if r.violation and "Invariant" in r.violation:
            # an invariant of the specification failed on an observed execution
            d = r.out
            rejected.append((pending[0], "invariant violated on an observed execution:\n" + r.violation[:600]))
            break
        if acc:
            run.cov["traces_validated_against_impl"] += len(pending)
            break
        if not rej:
            raise ToolError("trace validator produced no verdict:\n" + r.out[-3000:])
        k = int(rej[0].split(",")[1].strip(" >"))
        who = owner[k - 1]
        um = [p for p in r.prints if p.startswith('<<"UNMATCHED"')]
        rejected.append((pending[who], "event %d of the schedule is not a step of the specification: %s" % (
            k - owner.index(who), um[0][:300] if um else "")))
        run.cov["traces_validated_against_impl"] += who
        pending = pending[who + 1:]
    return rejected


def apalache_inductive(run):
    """The three obligations of the inductive-invariant argument on spec/TFBInd.tla (symbolic, unbounded integers)."""
    import shutil as _sh, subprocess as _sp
    exe = _sh.which("apalache-mc")
    if not exe:
        raise ToolError("apalache-mc is not on PATH")
    out = []
    for name, args in (("Init => IndInv", ["--init=Init", "--inv=IndInv", "--length=0"]),
                       ("IndInv /\\ Next => IndInv'", ["--init=IndInit", "--inv=IndInv", "--length=1"]),
                       ("IndInv => Delivered", ["--init=IndInit", "--inv=Delivered", "--length=0"])):
        t0 = time.time()
        try:
            p = _sp.run([exe, "check", "--cinit=ConstInit"] + args + ["--out-dir=" + os.path.join(run.wd, "apalache"), "TFBInd.tla"], cwd=SPEC,
                        stdout=_sp.PIPE, stderr=_sp.STDOUT, text=True, timeout=1200)
        except _sp.TimeoutExpired:
            raise ToolError("apalache timed out on obligation %r" % name)
        if "The outcome is: NoError" not in p.stdout:
            if "The outcome is: Error" in p.stdout:
                # the ABSTRACT model is wrong or the invariant is not inductive: a defect of the machinery, never of the code
                raise ToolError("apalache refutes obligation %r of TFBInd.tla:\n%s" % (name, p.stdout[-1500:]))
            raise ToolError("apalache failed on obligation %r:\n%s" % (name, p.stdout[-1500:]))
        out.append({"obligation": name, "outcome": "NoError", "wall_s": round(time.time() - t0, 1)})
    return out


def tlaps_proof(run):
    """spec/TFBIndProof.tla: the same three facts plus `Spec => []Delivered`, proved by tlapm (SMT / PTL back ends), from scratch."""
    import shutil as _sh, subprocess as _sp
    exe = _sh.which("tlapm")
    if not exe:
        raise ToolError("tlapm is not on PATH")
    t0 = time.time()
    try:
        p = _sp.run([exe, "--threads", "6", "--cache-dir", os.path.join(run.wd, "tlaps_cache"), "TFBIndProof.tla"], cwd=SPEC, stdout=_sp.PIPE, stderr=_sp.STDOUT, text=True, timeout=1500)
    except _sp.TimeoutExpired:
        raise ToolError("tlapm timed out on TFBIndProof.tla")
    m = re.search(r"All (\d+) obligations? proved", p.stdout)
    if not m:
        # an unproved obligation is a defect of the abstract model or of the proof script, never of the code
        raise ToolError("tlapm did not prove TFBIndProof.tla:\n" + p.stdout[-1500:])
    return {"module": "TFBIndProof", "obligations_proved": int(m.group(1)), "wall_s": round(time.time() - t0, 1)}


def main():
    run = Run("C12")
    t = "thorough" if run.thorough else "quick"
    # 1. design-level verification
    r = tlc("MC_TFB_verify", "MC_TFB_verify_%s.cfg" % t, os.path.join(run.wd, "verify"), workers=8,
            timeout=1500, coverage=False)
    tlc_must_pass(r, "TempFileBuffer safety+liveness")
    run.add_tlc("verify_safety_liveness", r)
    # 1b. unbounded companion: TFBInd.tla (lengths instead of byte sequences).  Apalache proves its inductive
    #     invariant for ANY number and size of writes (Init => IndInv; IndInv /\ Next => IndInv'; IndInv => Delivered);
    #     TLC checks that TempFileBuffer.tla (the specification that is trace-validated against the code) refines it.
    r = tlc("MC_TFB_refine", "MC_TFB_refine.cfg", os.path.join(run.wd, "refine"), workers=4, timeout=900, collect_replays=False)
    tlc_must_pass(r, "TempFileBuffer refines TFBInd (and satisfies its inductive invariant)")
    run.add_tlc("refines_unbounded_abstraction", r)
    run.cov["apalache_inductive_invariant"] = apalache_inductive(run)
    run.cov["tlaps_proof"] = tlaps_proof(run)
    # 2. emission of all schedules
    r = tlc("MC_TFB", "MC_TFB_%s.cfg" % t, os.path.join(run.wd, "emit"), workers=8, timeout=1500, coverage=True)
    tlc_must_pass(r, "TempFileBuffer emission")
    run.add_tlc("emit_schedules", r)
    for act in ("MCNext",):
        pass
    zero = [k for k, v in r.coverage.items() if k.startswith("MCNext") and v == 0]
    if zero:
        raise ToolError("vacuity: actions never taken: %s" % zero)
    beh = r.replays
    if len(beh) < 100:
        raise ToolError("vacuity: only %d behaviours emitted" % len(beh))
    cases = []
    for k, b in enumerate(beh):
        for inmem in (1, 0):
            c = dict(b)
            c["inmem"] = inmem
            c["short"] = 0
            cases.append(c)
        # the same schedule with a destination that accepts ONE byte per write call (a legal `Write`): a hand-over
        # of several staged bytes must still deliver all of them
        c = dict(b)
        c["inmem"] = k % 2
        c["short"] = 1
        cases.append(c)
        if k % 9 == 4:
            # the same schedule with every byte laid down 32 768 times: writes of 32 / 64 / 96 KiB, staged totals on exact multiples of 64 KiB
            for inmem in (0, 1):
                c = dict(b)
                c["inmem"], c["short"], c["rep"] = inmem, 0, 32768
                cases.append(c)
    obs = run_harness("tfb", cases, run.wd, hang_timeout=30)
    for o in obs:
        key = json.dumps([o["pp"], o["cp"], [h["op"] for h in o["hist"]], o["inmem"], o.get("short", 0), o.get("rep", 1)])
        nontrivial = len(o["pp"]) >= 1 and any(h["op"] in ("switch", "park") for h in o["hist"])
        run.count_case(key, nontrivial)
    run.cov["rule"] = ("every complete interleaving of a producer programme (<=MaxOps writes/flushes then drop) with a legal "
                       "consumer programme, emitted by TLC and replayed on the real TempFileBuffer in both staging modes, and once more against a destination taking one byte per write call; "
                       "non-trivial = at least one write and a switch or a parked blocking call; distinct by (programmes, schedule, staging)")
    run.sample({"schedule": obs[len(obs) // 2]["hist"], "pp": obs[len(obs) // 2]["pp"], "cp": obs[len(obs) // 2]["cp"],
                "events": obs[len(obs) // 2]["obs"].get("events", [])[:4]})
    # harness-level failures (panic / hang / io error) are contract events: judged below by the trace
    # spec as well (tag fields), but a case without events cannot be validated at all
    skipped = [o for o in obs if o["obs"].get("result") == "skipped"]
    obs = [o for o in obs if o["obs"].get("result") != "skipped"]
    run.cov["skipped_after_repeated_failures"] = len(skipped)
    bad_shape = [o for o in obs if "events" not in o["obs"]]
    for o in bad_shape[:5]:
        run.violation("replay of a legal schedule ended with %s: %s" % (o["obs"].get("result"), o["obs"].get("err", "")[:200]),
                      {"kind": "tfb", "case": o})
    good = [o for o in obs if "events" in o["obs"]]
    # 3. trace validation, sharded
    import threading
    shards = 8 if run.thorough else 4
    rej_all = []
    errs = []

    def one(k):
        try:
            rej = validate_traces(run, good[k::shards], "Trace_TFB", "Trace_TFB.cfg", "tr%d" % k)
            rej_all.extend(rej)
        except Exception as ex:
            errs.append(ex)
    ths = [threading.Thread(target=one, args=(k,)) for k in range(shards)]
    [t_.start() for t_ in ths]
    [t_.join() for t_ in ths]
    if errs:
        raise errs[0] if isinstance(errs[0], ToolError) else ToolError(repr(errs[0]))
    # a schedule rejected only because of the destination's INTERMEDIATE contents is drift (the statement speaks
    # of the final contents, the length and termination): re-validate the rejected ones without that comparison
    if rej_all:
        still = validate_traces(run, [o for o, _ in rej_all], "Trace_TFB", "Trace_TFB.cfg", "relaxed", max_report=50, relax=True)
        still_ids = {id(o) for o, _ in still}
        run.drift += len([1 for o, _ in rej_all if id(o) not in still_ids])
        rej_all = [(o, why) for o, why in rej_all if id(o) in still_ids]
    for o, why in rej_all:
        run.violation("real TempFileBuffer left the specification: %s (result=%s)" % (why, o["obs"].get("result")),
                      {"kind": "tfb", "case": o})
    # 4. threaded stress + linearisation validation
    rng = random.Random(run.seed)
    progs = sorted({json.dumps(b["pp"]) for b in beh})
    n_thr = 600 if run.thorough else 120
    tcases = []
    for i in range(n_thr):
        pp = json.loads(rng.choice(progs))
        tcases.append({"pp": pp, "cp": rng.choice(["switch_await", "switch_await", "ecw", "len_ecw", "len_len_ecw"]),
                       "inmem": rng.randint(0, 1), "seed": rng.randint(1, 2 ** 31)})
    tobs = run_harness("tfb_threads", tcases, run.wd, hang_timeout=40, shards=4)
    lin_ok = 0
    tgood = []
    for o in tobs:
        if o["obs"].get("result") == "skipped":
            continue
        if o["obs"].get("result") != "ok":
            run.violation("threaded run: %s" % o["obs"].get("result"), {"kind": "tfb_threads", "case": o})
        else:
            tgood.append(o)
    rej = validate_lin(run, tgood)
    for o, why in rej:
        run.violation("threaded execution has no linearisation allowed by the specification: %s" % why,
                      {"kind": "tfb_threads", "case": o})
    run.cov["threaded_runs"] = len(tobs)
    # 5. race rounds: drop vs. the start of a blocking call, released from a barrier with swept offsets
    nshard = 8
    rounds = 40000 if run.thorough else 6000
    rcases = [{"rounds": rounds, "seed": rng.randint(1, 2 ** 31)} for _ in range(nshard)]
    robs = run_harness("tfb_race", rcases, run.wd, hang_timeout=60, shards=nshard, max_hangs=1)
    rlines = []
    for o in robs:
        o.pop("case", None)
        rlines.append(json.dumps(o, separators=(",", ":")))
    bad = validate_obs("Obs_TFBRace", "Obs.cfg", rlines, run.wd, "race", shards=4)
    run.cov["race_rounds"] = sum(len(o["obs"].get("rounds", [])) for o in robs)
    run.cov["traces_validated_against_impl"] += len(robs)
    for i, tag in bad:
        o = robs[i]
        last = o["obs"].get("rounds", [])[-3:]
        run.violation("race rounds (producer drop vs. start of a blocking consumer call): %s: %s" % (tag, o["obs"].get("result")),
                      {"kind": "tfb_race", "case": {"rounds": o["rounds"], "seed": o["seed"]}, "last_rounds": last, "result": o["obs"].get("result")})
    run.assumptions += [
        "single-driver replay interleaves at public-call granularity (each call of the current code contains one shared access, or a sequence that no other thread can interleave with)",
        "threaded schedules are sampled with seeded pauses, not enumerated; the exhaustive claim is on the model",
        "SharedSink (in-memory Write) stands for the real destination; temp-file staging uses real temporary files",
    ]
    return run.finish()


def validate_lin(run, tgood, max_report=5):
    """Linearisation validation: one TLC run per batch of threaded traces (reset between)."""
    pending = list(tgood)
    rejected = []
    rounds = 0
    while pending and len(rejected) < max_report:
        rounds += 1
        lines, owner = [], []
        for k, o in enumerate(pending):
            lines.append(json.dumps({"kind": "reset", "t": "P", "op": "reset", "n": 0, "tag": "none", "val": [],
                                     "pp": o["pp"], "cp": o["cp"]}, separators=(",", ":")))
            owner.append(k)
            for e in o["obs"]["events"]:
                e = dict(e)
                e.pop("seq", None)
                e["pp"] = []
                e["cp"] = ""
                lines.append(json.dumps(e, separators=(",", ":")))
                owner.append(k)
        path = os.path.join(run.wd, "lin_%d.ndjson" % rounds)
        with open(path, "w") as f:
            f.write("\n".join(lines) + "\n")
        r = tlc("Trace_TFB_Lin", "Trace_TFB_Lin.cfg", os.path.join(run.wd, "tlc_lin_%d" % rounds), env={"TRACE": path},
                workers=1, timeout=1200, xmx="4g", dfs=True, collect_replays=False)
        run.add_tlc("linearise_round%d" % rounds, r)
        if r.violation and "Invariant" in r.violation:
            rejected.append((pending[0], "invariant violated on an observed threaded execution:\n" + r.violation[:600]))
            break
        acc = [p for p in r.prints if p.startswith('<<"ACCEPTED"')]
        rej = [p for p in r.prints if p.startswith('<<"REJECTED"')]
        if acc:
            run.cov["traces_validated_against_impl"] += len(pending)
            break
        if not rej:
            raise ToolError("linearisation validator produced no verdict:\n" + r.out[-3000:])
        k = int(rej[0].split(",")[1].strip(" >"))
        who = owner[min(k, len(owner)) - 1]
        rejected.append((pending[who], "longest matched prefix ends before event %d" % (k - owner.index(who))))
        run.cov["traces_validated_against_impl"] += who
        pending = pending[who + 1:]
    return rejected


def replay(path):
    d = json.load(open(path))
    rep = d.get("replay", {})
    case = dict(rep.get("case", {}))
    case.pop("obs", None)
    run = Run("C12")
    run.replay_dir = os.path.join(run.wd, "replays")
    sub = "tfb" if rep.get("kind") == "tfb" else "tfb_threads"
    obs = run_harness(sub, [case], run.wd, shards=1, hang_timeout=60)
    log("observation: %s" % json.dumps(obs[0]["obs"])[:600])
    if obs[0]["obs"].get("result") != "ok" or "events" not in obs[0]["obs"]:
        log("VIOLATION property=C12 replay=%s" % path)
        return 1
    rej = validate_traces(run, obs, "Trace_TFB", "Trace_TFB.cfg", "replay") if sub == "tfb" else validate_lin(run, obs)
    shutil.rmtree(run.wd, ignore_errors=True)
    if rej:
        log("VIOLATION property=C12 replay=%s" % path)
        log("  still violated: %s" % rej[0][1][:300])
        return 1
    log("[C12] replay: the recorded schedule is a behaviour of the specification")
    return 0


if __name__ == "__main__":
    main_wrap(main)
