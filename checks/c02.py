"""C02 — bigBed write/read round trip incl. overlapping entries, item count, autoSql, chromosome table."""
from checks.bbi_family import *

AUTOSQL = 'table t\n"x"\n(\nstring chrom; "c"\nuint chromStart; "s"\nuint chromEnd; "e"\nstring name; "n"\n)\n'


def main():
    run = Run("C02")
    cfgs = ["MC_BigBed_t1.cfg", "MC_BigBed_t2.cfg", "MC_BigBed_q3.cfg"] if run.thorough else ["MC_BigBed_q1.cfg", "MC_BigBed_q2.cfg", "MC_BigBed_q3.cfg"]
    sizes = lambda b: [b["L"]] * b["NC"]

    def extra(b, k, rng):
        e = {}
        if k % 3 == 0:
            # a valid schema, one with odd white space / unicode, and texts the built-in parser does not understand (a comment
            # line, an underscore in the table name): whatever is supplied is stored verbatim
            e["autosql"] = [AUTOSQL, "table weird\n\"tab\there, unicode é名\"\n(string chrom; \"\" uint chromStart; \"\" uint chromEnd; \"\")",
                            "#a comment first\ntable chip_peaks\n\"peaks\"\n(\nstring chrom; \"c\"\nuint chromStart; \"s\"\nuint chromEnd; \"e\"\n)\n"][(k // 3) % 3]
            e["asq"] = "same"
        if k % 4 == 1:
            e["restmode"] = "cols"     # 0..20 extra tab-separated UTF-8 columns
        return e
    nt = lambda o: len(o["items"]) >= 2
    desc = lambda o: {k: o["obs"].get(k) for k in ("result", "err", "chroms", "read", "count", "autosql", "readerr")}
    # exhaustive layouts, then deeper ones by random walks (5..8 items over two chromosomes, fan-out 2 => 3- and 4-level indexes)
    obs = run_batches(run, "C02", "MC_BigBed", cfgs, "Obs_BigBed", nt, desc, lambda beh, k0: make_cases(beh, "bb", sizes, run, extra=extra, k0=k0),
                      sims=[("MC_BigBed_deep.cfg", 3000 if run.thorough else 300)])
    many = []
    for k, (nch, bs) in enumerate([(300, 256), (40, 4)] + ([(700, 256)] if run.thorough else [])):
        many.append({"kind": "bb", "chroms": [50] * nch, "names": "varlen", "items": [[c, c % 7, c % 7 + 1 + c % 3, 1] for c in range(1, nch + 1)],
                     "vmap": "int", "allq": 0, "zq": 0, "mz": [], "msum": {"bases": 0, "sum": 0, "sumsq": 0, "min": 0, "max": 0, "int": 1}, "scale": 1, "asq": "bed3", "long": 0,
                     "opts": {"ips": 2, "bs": bs, "zooms": [], "zmode": "manual", "compress": k % 2, "inmem": 1, "rt": "multi", "threads": 2, "pass": 1 + k % 2, "chan": 100, "sort": "all"}})
    judge(run, "C02", "Obs_BigBed", many, nt, desc)   # many chromosomes (more than one block of the chromosome tree), names of very different lengths
    run.cov["rule"] = ("every start-sorted entry layout within the TLC bounds x (ips, zoom list); free options paired; every third case with a supplied "
                       "autoSql, every fourth with 0..20 extra UTF-8 columns; non-trivial = at least 2 entries; distinct by (items, ips, zooms)")
    run.sample({"items": obs[len(obs) // 3]["items"], "opts": obs[len(obs) // 3]["opts"], "read": obs[len(obs) // 3]["obs"].get("read")})
    run.assumptions += ["rest-of-line fields are identified by exact string equality against the generated texts"]
    return run.finish()


if __name__ == "__main__":
    main_wrap(main)
