"""C18 — slicing a text input loses nothing and reorders nothing (indexer, FileView, chunker)."""
import json
from pyverif.core import *


def main():
    run = Run("C18")
    t = "t" if run.thorough else "q"
    r = tlc("MC_Slicing", "MC_Slicing_%s.cfg" % t, os.path.join(run.wd, "mc_files"), workers=8, timeout=3000, xmx="8g")
    tlc_must_pass(r, "Slicing.tla: IndexMech/ChunksMech satisfy IndexExact/ChunksOK on every small file")
    run.add_tlc("files", r)
    files = r.replays
    r = tlc("MC_View", "MC_View_%s.cfg" % t, os.path.join(run.wd, "mc_view"), workers=8, timeout=3000, xmx="8g")
    tlc_must_pass(r, "MC_View")
    run.add_tlc("view_sequences", r)
    views = r.replays
    if len(files) < 1000 or len(views) < 1000:
        raise ToolError("vacuity: %d files, %d view sequences" % (len(files), len(views)))
    cases = []
    for f in files:
        cases.append({"mode": "index", "lines": f["lines"], "fin": f["fin"]})
    step = 1 if run.thorough else 3
    for f in files[::step]:
        for n in range(1, len(f["lines"]) + 3):
            cases.append({"mode": "chunks", "lines": f["lines"], "fin": f["fin"], "n": n})
    # the same files with ONE line made very long (longer than any reader buffer: 9000 .. 70000 bytes), at every position
    longs = []
    for k, f in enumerate(files[::(2 if run.thorough else 7)]):
        for pos in range(len(f["lines"])):
            ll = [list(x) for x in f["lines"]]
            ll[pos][1] = [9000, 20000, 40000, 70000, 8193, 16385][(k + pos) % 6]
            longs.append({"mode": "index", "lines": ll, "fin": f["fin"]})
            if (k + pos) % 3 == 0:
                for n in (2, 3, len(ll) + 1):
                    longs.append({"mode": "chunks", "lines": ll, "fin": f["fin"], "n": n})
    cases += longs
    run.cov["long_line_cases"] = len(longs)
    for v in views:
        cases.append({"mode": "view", "n": v["n"], "a": v["a"], "b": v["b"], "ops": v["ops"]})
    obs = run_harness("slicing", cases, run.wd, hang_timeout=15)
    lines = []
    for o in obs:
        o.pop("case", None)
        lines.append(json.dumps(o, separators=(",", ":")))
        nt = (o["mode"] != "view" and len({l[0] for l in o["lines"]}) >= 2) or (o["mode"] == "view" and o["a"] > 0)
        run.count_case(json.dumps({k: o[k] for k in o if k != "obs"}), nt)
    bad = validate_obs("Obs_Slicing", "Obs.cfg", lines, run.wd, "obs")
    run.drift += len(validate_obs.last_drift)
    run.cov["traces_validated_against_impl"] += len(obs)
    tags = {}
    for i, tag in bad:
        tags[tag] = tags.get(tag, 0) + 1
        o = obs[i]
        run.violation("C18 %s: %s -> %s" % (tag, json.dumps({k: o[k] for k in o if k != "obs"})[:300], json.dumps(o["obs"])[:300]),
                      {"kind": "slicing", "tag": tag, "case": {k: o[k] for k in o if k != "obs"}, "obs": o["obs"]})
    if tags:
        log("[C18] failing observations by tag: %s" % tags)
    run.cov["rule"] = ("every grouped file with <= MaxRuns runs x 1..3 lines x {short,long} lines x final newline (index; chunk counts 1..lines+2); every sequence of "
                       "MaxOps read/seek operations over the window set (views, incl. windows past EOF and to u64::MAX); non-trivial = >= 2 chromosomes / a window not starting at 0")
    run.sample(obs[0]); run.sample(obs[-1])
    return run.finish()


if __name__ == "__main__":
    main_wrap(main)
