"""C01 — bigWig write/read round trip (inputs x configurations)."""
from checks.bbi_family import *


def main():
    run = Run("C01")
    cfgs = ["MC_BigWig_t1.cfg", "MC_BigWig_t2.cfg", "MC_BigWig_q3.cfg"] if run.thorough else ["MC_BigWig_q1.cfg", "MC_BigWig_q2.cfg", "MC_BigWig_q3.cfg"]
    sizes = lambda b: [b["L"]] * b["NC"]
    nt = lambda o: len(o["items"]) >= 2
    desc = lambda o: {k: (o["obs"].get(k) if not (o.get("long") and k == "read") else len(o["obs"].get(k, []))) for k in ("result", "err", "chroms", "read")}
    obs = []
    # exhaustive layouts, then deeper layouts by random walks: 5..8 items over two chromosomes, one or two per block,
    # fan-out 2 => 3- and 4-level indexes; one configuration and one slice at a time (memory)
    for beh, k0 in each_batch(run, "MC_BigWig", cfgs, sims=[("MC_BigWig_deep.cfg", 3000 if run.thorough else 300)]):
        cases = make_cases(beh, "bw", sizes, run, k0=k0)
        # bit identity: the same layouts with the value tokens mapped to -0.0, subnormals, f32::MAX, 0.1 ...
        weird = make_cases(beh[::7], "bw", sizes, run, vmap="weird", k0=k0)
        for k, c in enumerate(weird):
            c["opts"]["zooms"] = []
            c["voff"] = k % 11          # rotate the table: -0.0, subnormal, MAX, MIN, 0.1, 1/3, smallest normal, -123.456, +inf, -inf, NaN
        got = judge(run, "C01", "Obs_BigWig", cases + weird, nt, desc)
        obs = obs or got[:2000]
        del cases, weird, got
    # boundary option values: items_per_slot = 65535 (the section header's u16 item count) with more
    # than 65536 values on one chromosome, and a large block size
    n = 70000
    longc = []
    for k, (ips, bs) in enumerate([(65535, 256), (1024, 100000)] if run.thorough else [(65535, 256)]):
        longc.append({"kind": "bw", "chroms": [2 * n + 5], "items": [[1, 2 * i, 2 * i + 1, 1 + i % 3] for i in range(n)], "vmap": "int", "allq": 0, "zq": 0,
                      "mz": [], "scale": 1, "asq": "bed3", "long": 1,
                      "opts": {"ips": ips, "bs": bs, "zooms": [], "zmode": "manual", "compress": 1 - k, "inmem": 1, "rt": "multi", "threads": 2, "pass": 1 + k, "chan": 100}})
    judge(run, "C01", "Obs_BigWig", longc, nt, desc)
    # many chromosomes (more than one block of the chromosome tree) with names of very different lengths
    many = []
    for k, (nch, bs) in enumerate([(300, 256), (40, 4)] + ([(700, 256)] if run.thorough else [])):
        many.append({"kind": "bw", "chroms": [50] * nch, "names": "varlen", "items": [[c, c % 7, c % 7 + 1 + c % 3, 1 + c % 3] for c in range(1, nch + 1)],
                     "vmap": "int", "allq": 0, "zq": 0, "mz": [], "scale": 1, "asq": "bed3", "long": 0,
                     "opts": {"ips": 2, "bs": bs, "zooms": [], "zmode": "manual", "compress": k % 2, "inmem": 1, "rt": "multi", "threads": 2, "pass": 1 + k % 2, "chan": 100, "sort": "all"}})
    judge(run, "C01", "Obs_BigWig", many, nt, desc)
    run.cov["rule"] = ("every sorted non-overlapping layout within the TLC bounds x (ips, zoom list) from TLC, free options "
                       "(compress, inmemory, runtime/threads, passes, channel, block size) paired; non-trivial = at least 2 values; "
                       "distinct by (items, ips, zooms)")
    run.sample({"items": obs[len(obs) // 3]["items"], "opts": obs[len(obs) // 3]["opts"], "read": obs[len(obs) // 3]["obs"].get("read")})
    run.assumptions += ["all finite f32 values are sampled through a token table (integers, -0.0, subnormal, f32::MAX/MIN, 0.1, 1/3), not enumerated",
                        "positions are small (chromosome length <= 8); items_per_slot 65535 and large block sizes are covered by fixed long behaviours in the thorough tier"]
    return run.finish()


if __name__ == "__main__":
    main_wrap(main)
