"""C01 — bigWig write/read round trip (inputs x configurations)."""
from checks.bbi_family import *


def main():
    run = Run("C01")
    cfgs = ["MC_BigWig_t1.cfg", "MC_BigWig_t2.cfg"] if run.thorough else ["MC_BigWig_q1.cfg", "MC_BigWig_q2.cfg"]
    beh = emit(run, "MC_BigWig", cfgs)
    sizes = lambda b: [b["L"]] * b["NC"]
    cases = make_cases(beh, "bw", sizes, run)
    # bit identity: the same layouts with the value tokens mapped to -0.0, subnormals, f32::MAX, 0.1 ...
    weird = make_cases(beh[::7], "bw", sizes, run, vmap="weird")
    for c in weird:
        c["opts"]["zooms"] = []
    nt = lambda o: len(o["items"]) >= 2
    desc = lambda o: {k: o["obs"].get(k) for k in ("result", "err", "chroms", "read")}
    obs = judge(run, "C01", "Obs_BigWig", cases + weird, nt, desc)
    run.cov["rule"] = ("every sorted non-overlapping layout within the TLC bounds x (ips, zoom list) from TLC, free options "
                       "(compress, inmemory, runtime/threads, passes, channel, block size) paired; non-trivial = at least 2 values; "
                       "distinct by (items, ips, zooms)")
    run.sample({"items": obs[len(obs) // 3]["items"], "opts": obs[len(obs) // 3]["opts"], "read": obs[len(obs) // 3]["obs"].get("read")})
    run.assumptions += ["all finite f32 values are sampled through a token table (integers, -0.0, subnormal, f32::MAX/MIN, 0.1, 1/3), not enumerated",
                        "positions are small (chromosome length <= 8); items_per_slot 65535 and large block sizes are covered by fixed long behaviours in the thorough tier"]
    return run.finish()


if __name__ == "__main__":
    main_wrap(main)
