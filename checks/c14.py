"""C14 — no partial file passes for a complete one; no I/O failure is reported as success.
(1) SinkOrder.tla: the writer's region order with a crash after every operation satisfies PrefixSafe
    (and a header-first variant of the design is rejected: vacuity guard);
(2) the real sequence of write/seek/flush operations is recorded and trace-validated by TLC at byte
    granularity (PrefixSafe after every operation);
(3) every crash prefix is materialised and reopened with the real readers; TLC judges that an accepted
    prefix serves exactly what the complete file serves;
(4) every single operation is failed in turn; TLC judges that the call did not report success;
(5) inputs refused part-way (one unrepresentable record at the first / a middle / the last position): what the destination is
    left with is rejected by the readers or serves exactly the valid prefix."""
import json, random
from pyverif.core import *
from pyverif import bbi_codec
from checks.bbi_family import free_opts


def advertised(img):
    """byte ranges a reader relies on once the header is valid (plumbing: from the decoded layout)"""
    h = img["header"]
    n = img["fileLen"]
    z = h["zoomLevels"]
    adv = []
    if z:
        adv.append([64, 64 + 24 * z])
    holes = sorted([[h["totalSummaryOffset"], h["totalSummaryOffset"] + 40], [h["fullDataOffset"], h["fullDataOffset"] + 8]])
    lo = 304
    for a, b in holes:
        if a > lo:
            adv.append([lo, a])
        lo = max(lo, b)
    if n - 4 > lo:
        adv.append([lo, n - 4])
    return adv


def main():
    run = Run("C14")
    for z in (0, 1, 2):
        for b in ("TRUE", "FALSE"):
            r = tlc("SinkOrder", "SinkOrder_%d_%s.cfg" % (z, b), os.path.join(run.wd, "so_%d_%s" % (z, b)), workers=2, timeout=600, deadlock_off=True)
            tlc_must_pass(r, "SinkOrder PrefixSafe (zooms=%d bed=%s)" % (z, b))
            run.add_tlc("design_z%d_%s" % (z, b), r)
    r = tlc("SinkOrder", "SinkOrder_mut.cfg", os.path.join(run.wd, "so_mut"), workers=2, timeout=600)
    if r.ok:
        raise ToolError("vacuity: the header-first design was NOT rejected by PrefixSafe")
    # the same design over a destination that already holds another complete file: StaleSafe (while the old header is what a reader sees,
    # nothing the old file advertises has been touched); a writer that does not blank the header first MUST fail it
    for z in (0, 1, 2):
        r = tlc("SinkOrder", "SinkOrder_stale_%d.cfg" % z, os.path.join(run.wd, "so_stale_%d" % z), workers=2, timeout=600, deadlock_off=True)
        tlc_must_pass(r, "SinkOrder PrefixSafe + StaleSafe over an older file (zooms=%d)" % z)
        run.add_tlc("design_stale_z%d" % z, r)
    r = tlc("SinkOrder", "SinkOrder_mut2.cfg", os.path.join(run.wd, "so_mut2"), workers=2, timeout=600)
    if r.ok:
        raise ToolError("vacuity: a writer that leaves the old header in place was NOT rejected by StaleSafe")
    # layouts
    rng = random.Random(run.seed)
    lay = []
    r1 = tlc("MC_BigWig", "MC_BigWig_q2.cfg", os.path.join(run.wd, "mc_bw"), workers=4, timeout=1200)
    tlc_must_pass(r1, "MC_BigWig_q2")
    r2 = tlc("MC_BigBed", "MC_BigBed_q2.cfg", os.path.join(run.wd, "mc_bb"), workers=4, timeout=1200)
    tlc_must_pass(r2, "MC_BigBed_q2")
    n_each = 150 if run.thorough else 24
    for kind, beh in (("bw", r1.replays), ("bb", r2.replays)):
        # entries (0,0) are unreadable today (known finding F11 of C02/C04): not a C14 stimulus
        beh = [b for b in beh if len(b["items"]) >= 2 and not (kind == "bb" and any(it[1] == 0 and it[2] == 0 for it in b["items"]))]
        rng.shuffle(beh)
        for k, b in enumerate(beh[:n_each]):
            o = free_opts(rng, k)
            o.update({"ips": b["ips"], "zooms": [[], [2], [2, 4]][k % 3], "zmode": "manual"})
            lay.append({"kind": kind, "chroms": [b["L"]] * b["NC"], "items": b["items"], "opts": o, "vmap": "int", "scale": 1, "asq": "bed3", "mz": [],
                        "allq": 0, "zq": 0})
    # larger inputs: more than the 8 KiB of a BufWriter per chromosome, so that data reaches the destination in several
    # operations and the staging buffers / inner BufWriters are flushed at drop time
    for k in range(4 if run.thorough else 2):
        kind = "bw" if k % 2 == 0 else "bb"
        items = []
        for c in (1, 2):
            p_ = 0
            for i in range(1500 + 700 * k):
                items.append([c, p_, p_ + 1 + i % 3, 1 + i % 5])
                p_ += 1 + i % 3 + (2 if i % 4 == 0 else 0)
        L = max(it[2] for it in items) + 5
        lay.append({"kind": kind, "chroms": [L, L], "items": items, "vmap": "int", "scale": 1, "asq": "bed3", "mz": [], "allq": 0, "zq": 0, "big": 1,
                    "opts": {"ips": 512, "bs": 16, "zooms": [[], [64]][k % 2], "zmode": "manual", "compress": 0, "inmem": k % 2, "rt": "multi", "threads": 2,
                             "pass": 1 + (k // 2) % 2, "chan": 100, "sort": "all"}})
    # exact fits: uncompressed sections of one chromosome that add up to a whole multiple of the 8 KiB writer buffer (2040 one-base values
    # in sections of 512: 3 x 6168 + 6072 = 3 x 8192 bytes), and one value more; channel size 0 and one thread, as the command line sets them
    for n in (2040, 2041):
        items = [[1, i, i + 1, 1 + i % 5] for i in range(n)]
        lay.append({"kind": "bw", "chroms": [n + 5], "items": items, "vmap": "int", "scale": 1, "asq": "bed3", "mz": [], "allq": 0, "zq": 0, "big": 1,
                    "opts": {"ips": 512, "bs": 256, "zooms": [], "zmode": "manual", "compress": 0, "inmem": 0, "rt": "current", "threads": 1, "pass": 1, "chan": 0, "sort": "all"}})
    rec = [dict(c, mode="record", dump=os.path.join(run.wd, "full%d.bin" % i)) for i, c in enumerate(lay)]
    obs = run_harness("sink", rec, run.wd, hang_timeout=30, shards=8)
    lines, tr_lines, owner = [], [], []
    fault_cases = []
    for i, o in enumerate(obs):
        o.pop("case", None)
        ob = o["obs"]
        lines.append(json.dumps({"mode": "record", "obs": {k: ob.get(k) for k in ("result", "full", "prefixes")}}, separators=(",", ":")))
        run.count_case(json.dumps([o["kind"], o["items"][:50], len(o["items"]), o["opts"]]), len(o["opts"]["zooms"]) > 0)
        if ob.get("result") == "ok" and os.path.exists(o["dump"]):
            img = bbi_codec.decode(open(o["dump"], "rb").read())
            os.remove(o["dump"])
            if "error" in img or "header" not in img:
                run.violation("complete file not decodable by the independent decoder", {"kind": "sink", "case": {k: o[k] for k in o if k != "obs"}})
                continue
            tr_lines.append(json.dumps({"ev": "reset", "adv": advertised(img), "off": 0, "len": 0, "final": 0}, separators=(",", ":")))
            owner.append(i)
            for e in ob["ops"]:
                tr_lines.append(json.dumps({"ev": e["ev"], "adv": [], "off": e["off"], "len": e["len"], "final": e["final"]}, separators=(",", ":")))
                owner.append(i)
            for k in range(ob["nops"]):
                fault_cases.append(dict({kk: o[kk] for kk in o if kk not in ("obs", "dump")}, mode="fault", fault=k))
    # (3b) the same, over a destination that already holds ANOTHER complete file (a Write + Seek destination need not be empty): an
    #      accepted crash image serves exactly the new file or still exactly the old one, never a mixture of the two
    small = [c for c in lay if not c.get("big")]
    stale_rec = []
    for i, c in enumerate(small):
        other = next((d for d in small[i + 1:] + small[:i] if d["kind"] == c["kind"] and d["chroms"] == c["chroms"] and d["items"] != c["items"]), None)
        if other is not None and i % 2 == 0:
            stale_rec.append(dict(c, mode="record", stale=1, stale_items=other["items"]))
    sobs = run_harness("sink", stale_rec, run.wd, hang_timeout=30, shards=8)
    for o in sobs:
        o.pop("case", None)
        ob = o["obs"]
        lines.append(json.dumps({"mode": "record", "stale": 1, "obs": {k: ob.get(k) for k in ("result", "full", "prefixes", "stale")}}, separators=(",", ":")))
        run.count_case(json.dumps(["stale", o["kind"], o["items"][:50], o["stale_items"][:50], o["opts"]]), True)
    obs_stale_n = len(sobs)
    run.cov["crash_images_over_an_older_complete_file"] = sum(len(o["obs"].get("prefixes", [])) for o in sobs)
    run.cov["sink_operations_recorded"] = len(tr_lines) - len(obs)
    # (2) trace validation of the op logs
    path = os.path.join(run.wd, "sink_trace.ndjson")
    open(path, "w").write("\n".join(tr_lines) + "\n")
    r = tlc("Trace_Sink", "Trace_Sink.cfg", os.path.join(run.wd, "tlc_trace"), env={"TRACE": path}, workers=1, timeout=1800, xmx="6g", collect_replays=False)
    run.add_tlc("sink_trace_validation", r)
    if r.violation and "PrefixSafe" in r.violation:
        m = re.search(r"l = (\d+)", r.violation[::-1][:0] or r.violation)
        ls = re.findall(r"/\\ l = (\d+)", r.violation)
        who = owner[min(int(ls[-1]) - 2, len(owner) - 1)] if ls else 0
        o = obs[who]
        run.violation("the real writer made the header valid before everything it advertises was written (PrefixSafe violated on the recorded operations)",
                      {"kind": "sink", "case": {k: o[k] for k in o if k != "obs"}, "ops": o["obs"].get("ops")})
    elif not any(p.startswith('<<"ACCEPTED"') for p in r.prints):
        raise ToolError("sink trace validation gave no verdict:\n" + r.out[-2000:])
    else:
        run.cov["traces_validated_against_impl"] += len(obs)
    # (5) refused inputs: the same layouts with ONE record made unrepresentable (start beyond its end) at the first, a middle
    #     and the last position: what the destination is left with after the error
    refused = []
    for c in lay:
        if c.get("big"):
            continue
        n = len(c["items"])
        for j in sorted({0, n // 2, n - 1}):
            it = c["items"][j]
            if it[1] == it[2]:
                continue
            items = [list(x) for x in c["items"]]
            items[j][1], items[j][2] = it[2], it[1]
            valid = [[x[0], x[1], x[2], (x[3] if c["kind"] == "bw" else i + 1)] for i, x in enumerate(c["items"][:j])]
            refused.append(dict(c, items=items, mode="refused", at=j, valid=valid))
    robs = run_harness("sink", refused, run.wd, hang_timeout=15, max_hangs=3)
    robs = [o for o in robs if o["obs"].get("result") != "skipped"]
    for o in robs:
        o.pop("case", None)
        lines.append(json.dumps({"mode": "refused", "valid": o["valid"], "obs": o["obs"]}, separators=(",", ":")))
        run.count_case(json.dumps([o["kind"], o["items"], o["opts"], "refused", o["at"]]), True)
    run.cov["refused_inputs"] = len(robs)
    run.cov["refused_inputs_left_readable"] = sum(1 for o in robs if o["obs"].get("left", {}).get("acc") == 1)
    # (3)+(4)
    fobs = run_harness("sink", fault_cases, run.wd, hang_timeout=15, max_hangs=3)
    for o in fobs:
        o.pop("case", None)
        if o["obs"].get("result") == "skipped":
            continue
        lines.append(json.dumps({"mode": "fault", "obs": o["obs"]}, separators=(",", ":")))
        run.count_case(json.dumps([o["kind"], o["items"][:50], len(o["items"]), o["opts"], o["fault"]]), True)
    allobs = obs + sobs + robs + [o for o in fobs if o["obs"].get("result") != "skipped"]
    bad = validate_obs("Obs_Sink", "Obs.cfg", lines, run.wd, "obs")
    run.cov["traces_validated_against_impl"] += len(fobs)
    run.cov["crash_prefixes_reopened"] = sum(len(o["obs"].get("prefixes", [])) for o in obs)
    run.cov["faults_injected"] = len(fobs)
    tags = {}
    for i, tag in bad:
        tags[tag] = tags.get(tag, 0) + 1
        o = allobs[i]
        small = {k: (o[k] if not (k == "items" and o.get("big")) else o[k][:6] + ["... %d items: [c, p, p+1+i%%3, 1+i%%5], p += 1+i%%3 (+2 every 4th)" % len(o[k])]) for k in o if k not in ("obs", "dump")}
        run.violation("C14 %s: %s fault=%s -> %s" % (tag, json.dumps(small)[:260], o.get("fault"), json.dumps({k: o["obs"].get(k) for k in ("result", "fired", "nops", "left")})[:300]),
                      {"kind": "sink", "tag": tag, "case": small, "obs": {k: o["obs"].get(k) for k in ("result", "fired", "nops", "fault")}})
    if tags:
        log("[C14] failing observations by tag: %s" % tags)
    run.cov["rule"] = ("layouts sampled (seeded) from the C01/C02 generators x zoom lists {none,[2],[2,4]} x free options; for each: the full operation log, EVERY crash prefix, "
                       "and a fault at EVERY operation; non-trivial = at least one zoom level; distinct by (layout, options, fault position)")
    run.sample({"layout": {k: obs[0][k] for k in ("kind", "items", "opts")}, "ops": obs[0]["obs"].get("ops", [])[:12]})
    run.assumptions += ["crash = the destination keeps exactly the first k operations (operation granularity, not byte granularity)",
                        "a reader error or panic on a prefix counts as rejection"]
    return run.finish()


if __name__ == "__main__":
    main_wrap(main)
