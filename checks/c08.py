"""C08 — bigBed zoom levels are faithful reductions of coverage depth."""
from checks.bbi_family import *


def main():
    run = Run("C08")
    cfgs = ["MC_BigBed_z_t1.cfg", "MC_BigBed_z_t2.cfg"] if run.thorough else ["MC_BigBed_z_q1.cfg", "MC_BigBed_z_q2.cfg"]
    beh = [b for b in emit(run, "MC_BigBed", cfgs) if b["zooms"]]
    sizes = lambda b: [b["L"]] * b["NC"]
    cases = make_cases(beh, "bb", sizes, run, zq=1)
    emb = make_cases(beh[::5], "bb", sizes, run, zq=0)
    for k, c in enumerate(emb):
        c["scale"] = [7, 1000, 65536][k % 3]
    def nt(o):
        its = o["items"]
        return any(its[i][0] == its[j][0] and its[i][2] > its[j][1] and its[i][1] < its[j][2] for i in range(len(its)) for j in range(i + 1, len(its)))
    desc = lambda o: {k: o["obs"].get(k) for k in ("result", "err", "zooms", "zint", "unmapped")}
    obs = judge(run, "C08", "Obs_BigBed", cases + emb, nt, desc)
    run.cov["rule"] = ("every start-sorted layout within the TLC bounds x manual zoom lists x ips; a fifth replayed under affine embeddings; "
                       "non-trivial = at least one pair of overlapping entries; distinct by (items, ips, zooms, scale)")
    run.sample({"items": obs[len(obs) // 3]["items"], "opts": obs[len(obs) // 3]["opts"], "zooms": obs[len(obs) // 3]["obs"].get("zooms")})
    run.assumptions += ["integer depth: statistics compared exactly", "total_items of a zoom record is not part of the statement and is ignored"]
    return run.finish()


if __name__ == "__main__":
    main_wrap(main)
