"""C06 — whole-file summary statistics equal the statistics of the written data (bigWig and bigBed)."""
from checks.bbi_family import *


def main():
    run = Run("C06")
    sizes = lambda b: [b["L"]] * b["NC"]
    desc = lambda o: {k: o["obs"].get(k) for k in ("result", "err", "summary", "count")}
    cfgs = ["MC_BigWig_t1.cfg", "MC_BigWig_t2.cfg"] if run.thorough else ["MC_BigWig_q1.cfg", "MC_BigWig_q2.cfg"]
    def build_w(beh, k0):
        cases = make_cases(beh, "bw", sizes, run, k0=k0)
        for k, c in enumerate(cases):
            if k % 3 == 1:
                # every third file holds only values <= 0 (tokens 1..3 -> -2..0): extrema of an all-negative / all-zero track
                c["items"] = [[it[0], it[1], it[2], it[3] - 3] for it in c["items"]]
                c["mz"] = []
        return cases
    obs = run_batches(run, "C06", "MC_BigWig", cfgs, "Obs_BigWig", lambda o: len(o["items"]) >= 2, desc, build_w)
    wobs = obs
    run.sample({"kind": "bw", "items": obs[len(obs) // 3]["items"], "summary": obs[len(obs) // 3]["obs"].get("summary")})
    cfgs = ["MC_BigBed_t1.cfg", "MC_BigBed_t2.cfg"] if run.thorough else ["MC_BigBed_q1.cfg", "MC_BigBed_q2.cfg"]
    def overl(o):
        its = o["items"]
        return any(its[i][0] == its[j][0] and its[i][2] > its[j][1] and its[i][1] < its[j][2] for i in range(len(its)) for j in range(i + 1, len(its)))
    obs = run_batches(run, "C06", "MC_BigBed", cfgs, "Obs_BigBed", overl, desc, lambda beh, k0: make_cases(beh, "bb", sizes, run, k0=k0))
    run.sample({"kind": "bb", "items": obs[len(obs) // 3]["items"], "summary": obs[len(obs) // 3]["obs"].get("summary")})
    info_part(run, obs_w_sample=wobs, obs_b_sample=obs)
    run.cov["rule"] = ("all layouts of the C01/C02 generators; a sample also through bigwiginfo / bigbedinfo under position embeddings x1, x1000, x1234567 (thousands separators); non-trivial = at least 2 bigWig values / at least one pair of overlapping bigBed entries; "
                       "distinct by (items, ips, zooms)")
    run.assumptions += ["integer-valued data so that sums are exact", "whether a zero-length bigWig value takes part in min/max is not stated: both readings accepted"]
    return run.finish()


def info_part(run, obs_w_sample, obs_b_sample):
    """the info tools' text as a function of the data (anchors: utils/cli/bigwiginfo.rs, bigbedinfo.rs)"""
    from checks import cli_family as cf
    import re as _re
    tdir = cf.tools_dir()
    d = os.path.join(run.wd, "info")
    os.makedirs(d, exist_ok=True)
    n = 150 if run.thorough else 30
    cases = []
    for kind, ob in (("bw", obs_w_sample), ("bb", obs_b_sample)):
        ob = [o for o in ob if not (kind == "bb" and any(it[1] == 0 and it[2] == 0 for it in o["items"]))]
        step = max(1, len(ob) // n)
        for k, o in enumerate(ob[::step][:n]):
            c = {kk: o[kk] for kk in o if kk != "obs"}
            # embeddings that give covered-base totals with every kind of thousands group: 5,000 / 5,005 / 5,000,015 / 6,172,835
            c["scale"] = [1, 1000, 1234567, 1001, 1000003][k % 5]
            c["allq"], c["zq"] = 0, 0
            c["dump"] = os.path.join(d, "%s%d.bin" % (kind, k))
            cases.append(c)
    res = run_harness("bbi", cases, run.wd, shards=2)
    lines, keep = [], []
    for o in res:
        if o["obs"].get("result") != "ok" or not os.path.exists(o["dump"]):
            continue
        tool = "bigwiginfo" if o["kind"] == "bw" else "bigbedinfo"
        rc, out, err = cf.run_tool(tdir, "own", tool, [o["dump"]])
        k_ = len(keep)
        # option paths: --minmax (bigWig: prints only "min max"), --chroms (one line per chromosome) with --zooms
        mm = None
        if o["kind"] == "bw":
            rcm, outm, _ = cf.run_tool(tdir, "own", tool, [o["dump"], "--minmax"])
            try:
                a_, b_ = outm.split()
                mm = (rcm, int(round(float(a_) * 1000000)), int(round(float(b_) * 1000000)))
            except Exception:
                mm = (1, 0, 0)
        rcc, outc, _ = cf.run_tool(tdir, "own", tool, [o["dump"], "--chroms", "--zooms"])
        chromlines = sum(1 for ln in outc.splitlines() if ln.startswith("\tchr")) if rcc == 0 else -1
        os.remove(o["dump"])
        f = {}
        for line in out.splitlines():
            if ":" in line:
                a, _, b = line.partition(":")
                f[a.strip()] = b.strip()
        parsed = 1
        try:
            ob = {"rc": rc, "bases": int(f["basesCovered"].replace(",", "")),
                  "min_u": cf.milli((f.get("min") or f.get("minDepth")))[0] * 1000 if False else int(round(float(f.get("min") or f.get("minDepth")) * 1000000)),
                  "max_u": int(round(float(f.get("max") or f.get("maxDepth")) * 1000000)),
                  "mean_u": int(round(float(f.get("mean") or f.get("meanDepth")) * 1000000)) if (f.get("mean") or f.get("meanDepth")) not in (None, "NaN") else 0,
                  "items": int(f.get("itemCount", "0").replace(",", ""))}
        except Exception:
            parsed = 0
            ob = {"rc": rc, "bases": 0, "min_u": 0, "max_u": 0, "mean_u": 0, "items": 0}
        ob["parsed"] = parsed
        ob["raw"] = out[:400]
        ob["mm"], ob["mm_min_u"], ob["mm_max_u"] = (1, mm[1], mm[2]) if mm and mm[0] == 0 else ((2, 0, 0) if mm else (0, 0, 0))
        ob["chromlines"] = chromlines
        rec = {"kind": o["kind"], "items": o["items"], "scale": o["scale"], "zl": 1 if any(it[1] == it[2] for it in o["items"]) else 0, "obs": ob}
        keep.append(rec)
        lines.append(json.dumps(rec, separators=(",", ":")))
        run.count_case("info" + json.dumps([o["kind"], o["items"], o["scale"]]), o["scale"] > 1)
    bad = validate_obs("Obs_Info", "Obs.cfg", lines, run.wd, "info", shards=1)
    run.cov["traces_validated_against_impl"] += len(keep)
    run.cov["info_tool_runs"] = len(keep)
    for i, tag in bad:
        o = keep[i]
        run.violation("C06 info tool %s: kind=%s scale=%s items=%s -> %s" % (tag, o["kind"], o["scale"], json.dumps(o["items"]), o["obs"]["raw"][:200]),
                      {"kind": "info", "tag": tag, "case": {k: o[k] for k in o if k != "obs"}, "obs": o["obs"]})


if __name__ == "__main__":
    main_wrap(main)
