"""C06 — whole-file summary statistics equal the statistics of the written data (bigWig and bigBed)."""
from checks.bbi_family import *


def main():
    run = Run("C06")
    sizes = lambda b: [b["L"]] * b["NC"]
    desc = lambda o: {k: o["obs"].get(k) for k in ("result", "err", "summary", "count")}
    cfgs = ["MC_BigWig_t1.cfg", "MC_BigWig_t2.cfg"] if run.thorough else ["MC_BigWig_q1.cfg", "MC_BigWig_q2.cfg"]
    beh = emit(run, "MC_BigWig", cfgs)
    obs = judge(run, "C06", "Obs_BigWig", make_cases(beh, "bw", sizes, run), lambda o: len(o["items"]) >= 2, desc)
    run.sample({"kind": "bw", "items": obs[len(obs) // 3]["items"], "summary": obs[len(obs) // 3]["obs"].get("summary")})
    cfgs = ["MC_BigBed_t1.cfg", "MC_BigBed_t2.cfg"] if run.thorough else ["MC_BigBed_q1.cfg", "MC_BigBed_q2.cfg"]
    beh = emit(run, "MC_BigBed", cfgs)
    def overl(o):
        its = o["items"]
        return any(its[i][0] == its[j][0] and its[i][2] > its[j][1] and its[i][1] < its[j][2] for i in range(len(its)) for j in range(i + 1, len(its)))
    obs = judge(run, "C06", "Obs_BigBed", make_cases(beh, "bb", sizes, run), overl, desc)
    run.sample({"kind": "bb", "items": obs[len(obs) // 3]["items"], "summary": obs[len(obs) // 3]["obs"].get("summary")})
    run.cov["rule"] = ("all layouts of the C01/C02 generators; non-trivial = at least 2 bigWig values / at least one pair of overlapping bigBed entries; "
                       "distinct by (items, ips, zooms)")
    run.assumptions += ["integer-valued data so that sums are exact", "whether a zero-length bigWig value takes part in min/max is not stated: both readings accepted"]
    return run.finish()


if __name__ == "__main__":
    main_wrap(main)
