"""C19 — the stored autoSql matches the data; the schema parser is total."""
import json, random
from pyverif.core import *
from checks import cli_family as cf

DELIMS = {"(", ")", "[", "]", ",", ";"}


def render(tokens, rng):
    """token sequence -> text (plumbing): fresh identifiers / comments, seeded whitespace; no space is needed next to a delimiter"""
    out = []
    n = 0
    for i, t in enumerate(tokens):
        n += 1
        txt = {"NAME": "n%d" % n, "STR": ('"comment %d; (x)"' if n % 3 else '"g\u00e9ne \u540d\u524d\u3000%d, [y]"') % n, "NUM": "12"}.get(t, t)
        if i > 0:
            prev = tokens[i - 1]
            if t in DELIMS or prev in DELIMS:
                out.append(rng.choice(["", " ", "\n", "\t ", "", " ", "\u00a0", "\u3000 ", "\r\n"]))
            else:
                out.append(rng.choice([" ", "\n", "  \t", " ", "\n", "\u00a0", "\u2003\u3000", " \u00a0", "\r\n", "\r\n"]))   # multi-byte white space and Windows line ends too
        out.append(txt)
    return "".join(out) + rng.choice(["", "\n", " "])


def main():
    run = Run("C19")
    r = tlc("MC_AutoSql", "MC_AutoSql_%s.cfg" % ("t" if run.thorough else "q"), os.path.join(run.wd, "mc"), workers=6, timeout=3000, xmx="8g")
    tlc_must_pass(r, "MC_AutoSql")
    run.add_tlc("autosql_behaviours", r)
    beh = r.replays
    kinds = {}
    for b in beh:
        kinds[b["kind"]] = kinds.get(b["kind"], 0) + 1
    if min(kinds.get(k, 0) for k in ("valid", "mut", "short", "bed")) < 40:
        raise ToolError("vacuity: %s" % kinds)
    rng = random.Random(run.seed)
    for b in beh:
        b["text"] = render(b["tokens"], rng)
    # parser runs under an address-space limit: runaway allocation ends the worker (observed as "crash")
    obs = run_harness("autosql", beh, run.wd, hang_timeout=10, max_hangs=6, mem_limit_mb=3000)
    lines = []
    keep = []
    for o in obs:
        o.pop("case", None)
        if o["obs"].get("result") == "skipped":
            continue
        keep.append(o)
        lines.append(json.dumps({k: o[k] for k in ("kind", "counts", "hfc", "n", "obs")}, separators=(",", ":")))
        run.count_case(o["text"] + o["kind"], o["kind"] != "short")
    bad = validate_obs("Obs_AutoSql", "Obs.cfg", lines, run.wd, "obs")
    run.cov["traces_validated_against_impl"] += len(keep)
    run.cov["behaviour_kinds"] = kinds
    tags = {}
    for i, tag in bad:
        tags[tag] = tags.get(tag, 0) + 1
        o = keep[i]
        run.violation("C19 %s: kind=%s text=%r -> %s" % (tag, o["kind"], o["text"][:160], json.dumps(o["obs"])[:200]),
                      {"kind": "autosql", "tag": tag, "case": {k: o[k] for k in o if k != "obs"}, "obs": o["obs"]})
    if tags:
        log("[C19] failing observations by tag: %s" % tags)
    # the tool: bedtobigbed without --autosql generates the schema from the first line; with --autosql stores it verbatim
    tool_part(run)
    python_part(run, [o for o in keep if o["kind"] == "valid"])
    run.cov["rule"] = ("(valid) every single declaration (3 kinds x 5 index forms x 1..2 fields over 12 field forms) and multi-declaration schemas of 2..5 declarations, rendered with seeded whitespace; "
                       "(mut) every truncation and single-token mutation/deletion of a base set; (short) every token string of length <= K over 14 tokens; (bed) 0..40 extra columns; "
                       "non-trivial = everything but the short strings; distinct by text")
    run.sample(keep[0]); run.sample(keep[-1])
    run.assumptions += ["which inputs are rejected is only constrained for generated-valid schemas (must be accepted with the declared fields)",
                        "'growing without bound' is observed as the worker exceeding a 3 GB address-space limit or the hang watchdog"]
    return run.finish()


def python_part(run, valid):
    """pybigtools: BBIRead.sql() of files written with a supplied schema (anchor pybigtools/src/lib.rs)"""
    import subprocess
    from checks.c20 import build_extension, VENV_PY
    moddir = build_extension()
    step = max(1, len(valid) // (300 if run.thorough else 60))
    sel = valid[::step]
    wc = []
    for k, o in enumerate(sel):
        wc.append({"kind": "bb", "chroms": [20], "items": [[1, 1, 5, 1]], "vmap": "int", "scale": 1, "allq": 0, "zq": 0, "mz": [], "asq": "same", "long": 0,
                   "autosql": o["text"], "restmode": "uniq",
                   "opts": {"ips": 2, "bs": 2, "zooms": [], "zmode": "manual", "compress": 1, "inmem": 1, "rt": "current", "threads": 1, "pass": 1, "chan": 100},
                   "dump": os.path.join(run.wd, "sql%d.bb" % k)})
    res = run_harness("bbi", wc, run.wd, shards=1)
    pin, pout = os.path.join(run.wd, "sql_in.ndjson"), os.path.join(run.wd, "sql_out.ndjson")
    with open(pin, "w") as f:
        for k, (o, r_) in enumerate(zip(sel, res)):
            if r_["obs"].get("result") == "ok":
                f.write(json.dumps({"mode": "sql", "path": r_["dump"], "schema": o["text"], "kind": "pysql", "counts": o["counts"], "hfc": o["hfc"], "n": 0}) + "\n")
    subprocess.run([VENV_PY, os.path.join(ROOT, "pyverif", "py_driver.py"), moddir, pin, pout], timeout=600, stdout=subprocess.PIPE, stderr=subprocess.PIPE)
    obs = [json.loads(l) for l in open(pout)] if os.path.exists(pout) else []
    lines = [json.dumps({k: o[k] for k in ("kind", "counts", "hfc", "n", "obs")}, separators=(",", ":")) for o in obs]
    bad = validate_obs("Obs_AutoSql", "Obs.cfg", lines, run.wd, "pysql", shards=1)
    run.cov["traces_validated_against_impl"] += len(obs)
    run.cov["python_sql_runs"] = len(obs)
    for o in obs:
        run.count_case("pysql" + o["path"], True)
    for i, tag in bad:
        o = obs[i]
        run.violation("C19 pybigtools sql(): %s -> %s" % (tag, json.dumps(o["obs"])), {"kind": "pysql", "tag": tag, "obs": o["obs"], "hfc": o["hfc"]})


def tool_part(run):
    tdir = cf.tools_dir()
    d = os.path.join(run.wd, "files")
    os.makedirs(d, exist_ok=True)
    lines, obs = [], []
    variants = [(n, via, "") for n in ([0, 1, 5, 9, 12, 13, 40] if not run.thorough else range(0, 41)) for via in ("file", "stdin")]
    # a supplied schema: --autosql FILE / -a FILE / the UCSC spelling -as=FILE, from a file and from stdin
    variants += [(n, via, flag) for n in (1, 4) for via in ("file", "stdin") for flag in ("--autosql", "-a", "-as=")]
    # ... and lines whose second extra column is EMPTY (it is still a column)
    variants += [(n, via, "emptycol") for n in (3, 6) for via in ("file", "stdin")]
    # ... and columns that hold blanks (a two-word name, a free-text description): columns are separated by tabs only
    variants += [(n, via, "blankcol") for n in (1, 2, 5) for via in ("file", "stdin")]
    for n, via, flag in variants:
        emptycol = flag == "emptycol"
        blankcol = flag == "blankcol"
        if emptycol or blankcol:
            flag = ""
        bed = os.path.join(d, "n%d%s.bed" % (n, "e" if emptycol else ("b" if blankcol else "")))
        with open(bed, "w") as f:
            for i in range(3):
                f.write("chrAa\t%d\t%d%s\n" % (i * 3, i * 3 + 2, "".join("\t" + ("" if (emptycol and j == 1) else ("my gene %d  x" % j if blankcol else "c%d" % j)) for j in range(n))))
        sizes = os.path.join(d, "n.sizes")
        open(sizes, "w").write("chrAa\t100\n")
        bb = os.path.join(d, "n%d.bb" % n)
        extra, schema = [], None
        if flag:
            schema = 'table supplied%d\n"g\u00e9ne \u540d\u524d; (x)"\n(\nstring chrom; "c"\nuint chromStart; "s"\nuint   chromEnd;\t"e"\n%s)\n' % (
                n, "".join('string f%d; "extra %d"\n' % (j, j) for j in range(n)))
            sp = os.path.join(d, "s%d.as" % n)
            open(sp, "w", encoding="utf-8").write(schema)
            extra = [flag + sp] if flag.endswith("=") else [flag, sp]
        if via == "stdin":
            rc, _, err = cf.run_tool(tdir, "own", "bedtobigbed", ["-", sizes, bb, "-t", "1"] + extra, stdin=open(bed, "rb").read())
        else:
            rc, _, err = cf.run_tool(tdir, "own", "bedtobigbed", [bed, sizes, bb, "-t", "1"] + extra)
        rc2, out, err2 = cf.run_tool(tdir, "own", "bigbedinfo", [bb, "--autosql"]) if rc == 0 else (1, "", "")
        rc3, info, _ = cf.run_tool(tdir, "own", "bigbedinfo", [bb]) if rc == 0 else (1, "", "")
        fc = -1
        for line in info.splitlines():
            if line.lower().startswith("fieldcount"):
                try:
                    fc = int(line.split(":")[1].strip().replace(",", ""))
                except Exception:
                    pass
        q, sem = False, 0
        for ch in out:
            if ch == '"':
                q = not q
            elif ch == ";" and not q:
                sem += 1
        o = {"kind": "bed", "counts": [], "hfc": 3 + n, "n": n, "via": via, "flag": flag, "emptycol": 1 if emptycol else 0,
             "obs": {"result": "ok" if rc == 0 and rc2 == 0 else "writeerr", "ans": {"result": "accept", "counts": [sem]}, "storedFields": sem, "verbatim": 1, "headerCount": fc}}
        if flag:
            # judged like a valid supplied schema: accepted, declared fields, stored verbatim (what bigbedinfo --autosql prints), header field count
            o["kind"], o["counts"] = "valid", [3 + n]
            # bigbedinfo --autosql prints the stored text between the "as:" line and the "basesCovered:" line
            a, b_ = out.find("as:\n"), out.find("basesCovered:")
            stored = out[a + 4:b_] if a >= 0 and b_ > a else ""
            o["obs"]["verbatim"] = 1 if stored.rstrip("\n") == schema.rstrip("\n") else 0
            o["obs"]["err"] = (err + err2)[-200:]
        obs.append(o)
        lines.append(json.dumps(o, separators=(",", ":")))
        run.count_case("tool n=%d %s %s %s %s" % (n, via, flag, emptycol, blankcol), True)
    bad = validate_obs("Obs_AutoSql", "Obs.cfg", lines, run.wd, "tool", shards=1)
    run.cov["traces_validated_against_impl"] += len(obs)
    for i, tag in bad:
        o = obs[i]
        run.violation("C19 bedtobigbed %s (input via %s), %d extra columns: %s -> %s" % (("with " + o["flag"]) if o.get("flag") else "without --autosql", o["via"], o["n"], tag, json.dumps(o["obs"])),
                      {"kind": "autosql-tool", "tag": tag, "n": o["n"], "obs": o["obs"]})


if __name__ == "__main__":
    main_wrap(main)
