"""C17 — per-region bigWig statistics and values are exact and thread-count independent."""
from checks.cli_family import *

main = c17_main

if __name__ == "__main__":
    main_wrap(main)
