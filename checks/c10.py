"""C10 — any well-formed BBI file is read correctly, whoever wrote it.
MC_AnyWriter.tla draws layouts (byte order, zlib/raw, section types, chromosome-tree shape, R-tree
fan-out / node order / gaps, version, summary present or not, zoom level); the independent encoder
lays them out; a guard (TLC: WellFormed(decode(bytes)) and Records = data set) protects against encoder
bugs; the real readers (plain and caching) answer chromosome table, summary, full reads, all range
queries, per-base values and zoom queries; TLC judges every answer against the encoded content."""
import json
from pyverif.core import *
from pyverif import bbi_codec
from pyverif.image import project_image, chrom_name


def to_layout(b):
    kind = b["kind"]
    nch = b["nchrom"]
    lay = {"kind": "bigwig" if kind == "bw" else "bigbed", "endian": b["endian"], "version": b["version"], "compress": bool(b["compress"]),
           "chroms": [[chrom_name(i), 8] for i in range(1, nch + 1)], "chromTreeBlockSize": b["ctbs"], "chromTreeNodeOrder": b["ctorder"],
           "chromTreeFirst": bool(b["ctfirst"]),
           "rtree": {"blockSize": b["rbs"], "itemsPerSlot": 3, "nodeOrder": b["order"], "gap": b["gap"]}}
    ids = list(range(nch))
    if b["idperm"]:
        ids = ids[1:] + ids[:1]        # ids not in key order
    lay["ids"] = ids
    if b["summary"]:
        s = b["summ"]
        lay["summary"] = {"bases": s["bases"], "min": s["min"], "max": s["max"], "sum": s["sum"], "sumSq": s["sumsq"]}
    else:
        lay["summary"] = None
    secs = []
    for k, sec in enumerate(b["secs"]):
        cid = ids[sec[0][0] - 1]
        if kind == "bb":
            secs.append({"chrom": cid, "items": [[it[1], it[2], "k%d" % it[3]] for it in sec]})
        else:
            t = b["types"][k]
            if t == 1:
                secs.append({"chrom": cid, "type": 1, "items": [[it[1], it[2], it[3]] for it in sec]})
            elif t == 2:
                secs.append({"chrom": cid, "type": 2, "span": sec[0][2] - sec[0][1], "items": [[it[1], it[3]] for it in sec]})
            else:
                step = (sec[1][1] - sec[0][1]) if len(sec) > 1 else (sec[0][2] - sec[0][1])
                secs.append({"chrom": cid, "type": 3, "start": sec[0][1], "step": step, "span": sec[0][2] - sec[0][1], "values": [it[3] for it in sec]})
    # a well-formed file keeps its blocks sorted by (chromosome id, start)
    secs.sort(key=lambda x: x["chrom"])
    lay["sections"] = secs
    if kind == "bb":
        lay["autoSql"] = "table t \"x\" (string chrom; \"\" uint chromStart; \"\" uint chromEnd; \"\" string name; \"\")"
        lay["fieldCount"] = 4
        lay["definedFieldCount"] = 4
    if b["zoom"] and kind == "bw":
        lay["zooms"] = [{"reduction": 2, "records": sorted([[ids[r[0] - 1]] + r[1:] for r in b["zrecs"]], key=lambda r: r[0]), "itemsPerBlock": 2,
                         "crossChrom": b["zoom"] == 2,          # kent-style packing: a zoom block may hold records of several chromosomes
                         "rtree": {"blockSize": b["rbs"], "itemsPerSlot": 2, "nodeOrder": b["order"], "gap": b["gap"]}}]
    return lay


def main():
    run = Run("C10")
    num = 2500 if run.thorough else 150
    beh = []
    for cfg in ("MC_AnyWriter_bw1.cfg", "MC_AnyWriter_bb1.cfg", "MC_AnyWriter_bw2.cfg", "MC_AnyWriter_bb2.cfg"):
        r = tlc("MC_AnyWriter", cfg, os.path.join(run.wd, "sim_" + cfg[:-4]), workers=4, timeout=3000, simulate=num, depth=20, seed=run.seed, xmx="4g")
        tlc_must_pass(r, cfg)
        run.add_tlc("simulate_" + cfg[:-4], r)
        beh += r.replays
    seen, uniq = set(), []
    for b in beh:
        k = json.dumps(b, sort_keys=True)
        if k not in seen:
            seen.add(k); uniq.append(b)
    beh = uniq
    if len(beh) < 300:
        raise ToolError("vacuity: %d layouts" % len(beh))
    cover = {}
    for b in beh:
        for f in ("endian", "compress", "version", "summary", "ctbs", "idperm", "ctfirst", "ctorder", "rbs", "order", "gap", "zoom"):
            cover.setdefault(f, set()).add(str(b[f]))
    run.cov["layout_values_covered"] = {f: sorted(v) for f, v in cover.items()}
    lines, cases = [], []
    for k, b in enumerate(beh):
        lay = to_layout(b)
        try:
            data = bbi_codec.encode(lay)
        except Exception as ex:
            raise ToolError("encoder refused a layout: %s (%s)" % (ex, json.dumps(lay)[:300]))
        path = os.path.join(run.wd, "w%d.bin" % k)
        open(path, "wb").write(data)
        rest_ids = {"k%d" % (i + 1): i + 1 for i in range(len(b["items"]))}
        img = project_image(bbi_codec.decode(data), rest_ids, idspace=True)
        small = {kk: b[kk] for kk in b if kk not in ("secs",)}
        ids = lay["ids"]
        gitems = sorted([[ids[it[0] - 1] + 1] + it[1:] for it in b["items"]], key=lambda it: it[0])   # items in file order, in id space
        lines.append(json.dumps(dict(small, stage="guard", img=img, gitems=gitems), separators=(",", ":")))
        for cached in (0, 1):
            cases.append(dict(small, path=path, chroms=[8] * b["nchrom"], allq=1, zq=1, cached=cached, vmap="int", scale=1, restmode="uniq", layout_id=k))
    bad = validate_obs("Obs_AnyWriter", "Obs.cfg", lines, run.wd, "guard")
    if bad:
        i, tag = bad[0]
        raise ToolError("the independent ENCODER produced a file that is not WellFormed / does not decode to the data set (%s): %s" % (tag, lines[i][:600]))
    obs = run_harness("readfile", cases, run.wd, hang_timeout=30)
    rl = []
    for o in obs:
        o.pop("case", None)
        o2 = {kk: o[kk] for kk in o if kk not in ("path",)}
        o2["stage"] = "read"
        rl.append(json.dumps(o2, separators=(",", ":")))
        run.count_case(json.dumps({kk: o[kk] for kk in o if kk not in ("obs", "path", "items", "zrecs", "summ")}), o["endian"] == "big" or o["order"] != "bfs" or o["ctbs"] < 256)
    bad = validate_obs("Obs_AnyWriter", "Obs.cfg", rl, run.wd, "read")
    run.cov["traces_validated_against_impl"] += len(obs)
    tags = {}
    for i, tag in bad:
        tags[tag] = tags.get(tag, 0) + 1
        o = obs[i]
        desc = {kk: o[kk] for kk in o if kk not in ("obs", "path", "zrecs", "summ")}
        rep = {"kind": "readfile", "tag": tag, "case": desc, "layout": to_layout(beh[o["layout_id"]]), "obs": {kk: o["obs"].get(kk) for kk in ("result", "err", "chroms", "read", "summary", "count")}}
        known = classify_known(o, tag)
        if known:
            rep["known"] = known
        run.violation("C10 %s: %s -> %s %s" % (tag, json.dumps(desc)[:300], o["obs"].get("result"), o["obs"].get("err", "")[:100]), rep)
    if tags:
        log("[C10] failing observations by tag: %s" % tags)
    for k in range(len(beh)):
        try:
            os.remove(os.path.join(run.wd, "w%d.bin" % k))
        except OSError:
            pass
    run.cov["rule"] = ("layouts drawn by random walks of MC_AnyWriter over the cross product (one field per step) on 2 data sets per file type; each laid out by the "
                       "independent encoder and read by the plain and the caching reader; non-trivial = big-endian, or a node order other than breadth-first, or a "
                       "multi-level chromosome tree; distinct by the layout record")
    run.sample({kk: obs[0][kk] for kk in obs[0] if kk not in ("obs", "path")})
    run.assumptions += ["pyverif/bbi_codec.py's encoder is guarded by WellFormed(decode(encode(layout))) and Records = data set, both evaluated by TLC, before any reader disagreement is believed",
                        "the cross product of layout dimensions is sampled (seeded), every value of every dimension is covered (see layout_values_covered)"]
    return run.finish()


def classify_known(o, tag):
    return None


if __name__ == "__main__":
    main_wrap(main)
