"""The command-line family: the REAL CLI main of the repository (built as a bin target of the harness
from /repo/bigtools/src/bin/bigtools.rs) is driven through argv; Python only builds argv, moves files
and parses text back into records (plumbing).  Every judgement is a TLA+ formula evaluated by TLC."""
import json, os, re, struct, subprocess, random, concurrent.futures
from pyverif.core import *
from pyverif.image import chrom_name

TOOLS = ["bedgraphtobigwig", "bigwigtobedgraph", "bedtobigbed", "bigbedtobed", "bigwigaverageoverbed", "bigwigvaluesoverbed",
         "bigwigmerge", "bigwiginfo", "bigbedinfo"]
MIXED = {"bedgraphtobigwig": "bedGraphToBigWig", "bigwigtobedgraph": "bigWigToBedGraph", "bedtobigbed": "bedToBigBed", "bigbedtobed": "bigBedToBed",
         "bigwigaverageoverbed": "bigWigAverageOverBed", "bigwigmerge": "bigWigMerge", "bigwigvaluesoverbed": "bigWigValuesOverBed"}
VALS = {1: "1", 2: "2.5", 3: "-0.75", 4: "1e-3", 5: "3e10", 6: "0", 7: "7",
        8: "inf", 9: "-inf", 10: "NaN", 11: "-0"}      # 8..11: special values, only in text 4 (they are legal bedGraph values)
NORMAL = 7


def f32bits(x):
    return struct.unpack("<I", struct.pack("<f", float(x)))[0]


VBITS = {f32bits(v): k for k, v in VALS.items()}


def tools_dir():
    build_harness()
    d = os.path.join(WORK, "clibin" + ("_alt" if ALT_REPO else "") + ("_cov" if COV else ""))
    os.makedirs(d, exist_ok=True)
    real = os.path.join(os.path.dirname(VH), "bigtools")
    for n in TOOLS + list(MIXED.values()) + ["bigtools", "BigTools"]:
        p = os.path.join(d, n)
        if os.path.islink(p) or os.path.exists(p):
            os.remove(p)
        os.symlink(real, p)
    return d


def path_events(trace_file, keep=None):
    """names of the path hook points a traced tool run went through (BIGTOOLS_VERIF_TRACE); `keep` collects every event"""
    names = set()
    try:
        for line in open(trace_file):
            f = line.split()
            if f and f[0].startswith("path."):
                names.add(f[0])
            elif keep is not None and len(f) == 4:
                keep.append([f[0], int(f[1]), int(f[2])])
        os.remove(trace_file)
    except OSError:
        pass
    return names


def run_tool(tdir, invoke, tool, args, timeout=120, stdin=None, trace=None, seed=None):
    if invoke == "multicall":
        argv = [os.path.join(tdir, "bigtools"), tool] + args
    elif invoke == "mixedcase":
        argv = [os.path.join(tdir, MIXED.get(tool, tool))] + args
    else:
        argv = [os.path.join(tdir, tool)] + args
    env = None
    if trace:
        env = dict(os.environ, BIGTOOLS_VERIF_TRACE=trace)
        if seed:
            env["BIGTOOLS_VERIF_DELAY_SEED"] = str(seed)      # seeded pauses at the hook points: schedules a plain run never shows
    try:
        p = subprocess.run(argv, stdout=subprocess.PIPE, stderr=subprocess.PIPE, timeout=timeout, input=stdin, env=env)
        return p.returncode, p.stdout.decode(errors="replace"), p.stderr.decode(errors="replace")
    except subprocess.TimeoutExpired:
        return 124, "", "timeout"


# ---------------------------------------------------------------------------------------------
# canonical texts
# ---------------------------------------------------------------------------------------------
def text_items(kind, which):
    rng = random.Random(100 + which)
    items = []
    if which == 1:
        layout = {1: [(0, 2), (2, 5), (7, 9)], 2: [(1, 4), (10, 12)], 3: [(0, 1)]}
    elif which == 4:
        # bigWig: infinities, NaN and -0 among ordinary values (bigBed: just another small layout)
        layout = {1: [(0, 2), (2, 5), (7, 9), (9, 12)], 2: [(1, 4), (10, 12), (12, 13)], 3: [(0, 1), (3, 6)], 4: [(5, 6)]}
    elif which == 2:
        layout = {c: [] for c in (1, 2, 3, 4)}
        for c in layout:
            p = rng.randint(0, 3)
            for _ in range(40):
                ln = rng.randint(1, 6)
                layout[c].append((p, p + ln))
                p += ln + rng.choice([0, 0, 1, 5])
    else:
        layout = {1: [], 2: [], 3: []}
        for c, n in ((1, 2600), (2, 40), (3, 1100)):
            p = 0
            for _ in range(n):
                ln = 1 + (p % 3)
                layout[c].append((p, p + ln))
                p += ln + (1 if p % 7 == 0 else 0)
    k = 0
    for c in sorted(layout):
        prev_start = 0
        for (s, e) in layout[c]:
            k += 1
            if kind == "bb":
                # bigBed: overlapping allowed; make some entries overlap their predecessor (start-sorted)
                if k % 5 == 0 and s > prev_start + 1:
                    s = prev_start + 1
                items.append([c, s, e, k])
                prev_start = s
            else:
                items.append([c, s, e, [8, 1, 9, 10, 5, 11][k % 6] if which == 4 else 1 + (k % NORMAL)])
    return items


def bed_rest(k):
    cols = ["n%d" % k, str(k % 1000), "+-"[k % 2], "géne名%d" % k, "0,0,255"]
    return "\t".join(cols[: 1 + k % 5])


REAL_NAMES = ["chr1", "chr10", "chr10_random", "chr2", "chrUn_KI270302v1"]   # shared prefixes, different lengths; byte-wise sorted


def cname(i, scheme=0):
    return REAL_NAMES[i - 1] if scheme else chrom_name(i)


def write_inputs(d, kind, items, tag, scheme=0, style=0):
    """chromosome sizes differ: the first chromosome is exactly as long as its data (so later chromosomes have
    records beyond the first one's length), chromosome c has c spare bases"""
    nch = max(it[0] for it in items)
    szs = {c: max([it[2] for it in items if it[0] == c] + [1]) + (0 if c == 1 else c) for c in range(1, nch + 1)}
    size = szs
    sizes = os.path.join(d, "chrom_%s.sizes" % tag)
    # the same table in the text shapes chrom.sizes files come in (style): 0 plain; 1 a .fai index (more columns, spaces); 2 blank lines and
    # chromosomes the data never mentions; 3 Windows line ends and no final newline
    with open(sizes, "w", newline="") as f:
        rows = []
        for c in range(1, nch + 1):
            if style == 1:
                rows.append("%s  %d %d\t60\t61" % (cname(c, scheme), szs[c], 7 + 100 * c))
            else:
                rows.append("%s\t%d" % (cname(c, scheme), szs[c]))
        if style == 2:
            rows = ["", rows[0], "", "chrZz_unused\t12345"] + rows[1:] + ["chrZy_unused\t5", ""]
        f.write("\r\n".join(rows) if style == 3 else "\n".join(rows) + "\n")
    path = os.path.join(d, "in_%s.%s" % (tag, "bedGraph" if kind == "bw" else "bed"))
    with open(path, "w") as f:
        lines = []
        for it in items:
            if kind == "bw":
                lines.append("%s\t%d\t%d\t%s" % (cname(it[0], scheme), it[1], it[2], VALS[it[3]]))
            else:
                lines.append("%s\t%d\t%d\t%s" % (cname(it[0], scheme), it[1], it[2], bed_rest(it[3])))
        f.write("\n".join(lines) + ("" if style == 3 else "\n"))       # style 3: the last line is not terminated
    return path, sizes, size


def parse_back(kind, path, rest_ids, scheme=0):
    """text -> [[c, s, e, x]]; x = value token (f32-equal to a table value) / entry id (identical extra columns)"""
    out = []
    try:
        with open(path, encoding="utf-8", errors="replace") as f:
            for line in f:
                line = line.rstrip("\n")
                if not line:
                    continue
                p = line.split("\t", 3)
                from pyverif.image import chrom_idx
                c = (REAL_NAMES.index(p[0]) + 1 if p[0] in REAL_NAMES else 0) if scheme else chrom_idx(p[0])
                s, e = int(p[1]), int(p[2])
                if kind == "bw":
                    x = VBITS.get(f32bits(p[3]), -1)
                else:
                    x = rest_ids.get(p[3] if len(p) > 3 else "", 0)
                out.append([c, s, e, x])
    except Exception:
        return None
    return out


def c16_case(tdir, d, k, b):
    cfg = b["cfg"]
    kind = cfg["kind"]
    items = text_items(kind, cfg["text"])
    tag = "%d" % k
    scheme = k % 2          # every other case: chromosome names that share prefixes and differ in length
    inp, sizes, size = write_inputs(d, kind, items, tag, scheme, style=(k // 2) % 4)
    big = os.path.join(d, "out_%s.%s" % (tag, "bw" if kind == "bw" else "bb"))
    back = os.path.join(d, "back_%s.txt" % tag)
    ucsc = cfg["style"] == "ucsc"
    stdin_data = None
    a1 = [inp, sizes, big, "-t", str(cfg["threads"]), "-p", cfg["parallel"]]
    if cfg.get("stdin"):
        stdin_data = open(inp, "rb").read()
        a1[0] = ["-", "stdin", "/dev/stdin"][k % 3]
    if cfg["single"]:
        a1.append("--single-pass")
    if cfg["inmem"]:
        a1.append("--inmemory")
    if cfg["unc"]:
        a1.append("-unc" if ucsc else "--uncompressed")
    if cfg["bs"]:
        a1.append(("-blockSize=%d" if ucsc else "--block-size=%d") % cfg["bs"])
    if cfg["zooms"]:
        a1.append("-zooms=2,8" if ucsc else "--zooms=2,8")
    tr1, tr2 = os.path.join(d, "tr1_%s.txt" % tag), os.path.join(d, "tr2_%s.txt" % tag)
    # every output path already holds a LONGER file from "an earlier run": the tools must replace it, not write over its beginning
    for stale in (big, back):
        with open(stale, "wb") as f:
            f.write((b"chrAa\t1\t2\tstale 9.75\n" * 40000) if stale == back else os.urandom(900000))
    rc1, _, err1 = run_tool(tdir, cfg["invoke"], "bedgraphtobigwig" if kind == "bw" else "bedtobigbed", a1, stdin=stdin_data, trace=tr1)
    a2 = [big, back, "-t", str(cfg["bthreads"])]
    if cfg["binmem"]:
        a2.append("--inmemory")
    rc_, rs_, re_ = 2, 3, 9
    if max(it[0] for it in items) < 2:
        rc_ = 1
    if cfg["restrict"] in ("chrom", "range", "start", "end"):
        a2.append(("-chrom=%s" if ucsc else "--chrom=%s") % cname(rc_, scheme))
    if cfg["restrict"] in ("range", "start"):
        a2.append(("-start=%d" if ucsc else "--start=%d") % rs_)
    if cfg["restrict"] in ("range", "end"):
        a2.append(("-end=%d" if ucsc else "--end=%d") % re_)
    rc2, err2 = 1, ""
    if rc1 == 0 and os.path.exists(big):
        rc2, _, err2 = run_tool(tdir, cfg["invoke"], "bigwigtobedgraph" if kind == "bw" else "bigbedtobed", a2, trace=tr2)
    # which internal paths actually ran (hook points `path.*` recorded through BIGTOOLS_VERIF_TRACE)
    events = [] if k % int(os.environ.get("C16_TRACE_EVERY", "40")) == 0 else None     # every fortieth forward conversion: all hook events, for trace validation against Pipeline.tla
    events2 = [] if events is not None else None       # ... and of the back-conversion (the same lane pipeline when multi-threaded)
    ev = path_events(tr1, events) | path_events(tr2, events2)
    seen_path = {"source": sorted(x[len("path.source."):] for x in ev if x.startswith("path.source.")),
                 "passes": 1 if "path.pass.single" in ev else (2 if {"path.pass.first", "path.pass.zoom"} <= ev else 0),
                 "back": sorted(x[len("path.back."):] for x in ev if x.startswith("path.back."))}
    rest_ids = {bed_rest(it[3]): it[3] for it in items} if kind == "bb" else {}
    recs = parse_back(kind, back, rest_ids, scheme) if rc2 == 0 else None
    obs = {"rc1": rc1, "rc2": rc2, "parsed": 1 if recs is not None else 0, "back": recs or [], "back3": [[r[1], r[2], r[3]] for r in (recs or [])],
           "err": (err1 + err2)[-300:], "seen": seen_path}
    for p in (inp, sizes, big, back):
        try:
            os.remove(p)
        except OSError:
            pass
    return {"cfg": cfg, "path": b["path"], "items": items, "rc": rc_, "rs": rs_, "re": re_, "size": size[rc_], "obs": obs, "argv1": a1[3:], "argv2": a2[2:], "events": events if rc1 == 0 else None,
            "events2": events2 if (rc2 == 0 and events2 and any(e[0] == "pipe.lane.new" for e in events2)) else None}


def run_parallel(fn, jobs, workers=8):
    with concurrent.futures.ThreadPoolExecutor(max_workers=workers) as ex:
        return list(ex.map(fn, jobs))


def c16_main():
    run = Run("C16")
    num = 800 if run.thorough else 60
    r = tlc("MC_Cli", "MC_Cli.cfg", os.path.join(run.wd, "sim"), workers=4, timeout=3000, simulate=num, depth=20, seed=run.seed, xmx="4g")
    tlc_must_pass(r, "MC_Cli")
    run.add_tlc("simulate_cli_configurations", r)
    seen, beh = set(), []
    for b in r.replays:
        k = json.dumps(b, sort_keys=True)
        if k not in seen:
            seen.add(k); beh.append(b)
    # the long text is expensive to judge: keep it for a tenth of the configurations
    for i, b in enumerate(beh):
        if b["cfg"]["text"] == 3 and i % 10:
            b["cfg"]["text"] = 1 + i % 2
    classes = {json.dumps(b["path"]) for b in beh}
    if len(beh) < 100 or len(classes) < 6:
        raise ToolError("vacuity: %d configurations, %d path classes" % (len(beh), len(classes)))
    tdir = tools_dir()
    d = os.path.join(run.wd, "files")
    os.makedirs(d, exist_ok=True)
    obs = run_parallel(lambda kb: c16_case(tdir, d, kb[0], kb[1]), list(enumerate(beh)))
    lines = []
    for o in obs:
        lines.append(json.dumps({k: o[k] for k in ("cfg", "items", "rc", "rs", "re", "size", "obs")}, separators=(",", ":")))
        c = o["cfg"]
        run.count_case(json.dumps(c, sort_keys=True), c["threads"] > 1 or c["style"] == "ucsc" or c["restrict"] != "none")
    bad = validate_obs("Obs_Cli", "Obs.cfg", lines, run.wd, "obs", shards=4)
    run.drift += len(validate_obs.last_drift)
    for i in validate_obs.last_drift[:3]:
        log("[C16] MODEL-DRIFT detail: paths seen %s for cfg %s" % (json.dumps(obs[i]["obs"]["seen"]), json.dumps(obs[i]["cfg"])))
    # the write pipeline as the real converter ran it (serial / parallel source with the real indexer, one or two passes)
    traced = [({"source": "converter", "cfg": o["cfg"]}, o["events"]) for o in obs if o.get("events")]
    traced += [({"source": "back-converter", "cfg": o["cfg"]}, o["events2"]) for o in obs if o.get("events2")]
    if traced:
        from checks.c11 import validate_pipeline_traces
        validate_pipeline_traces(run, traced, label="converter_pipeline_trace_validation", min_lanes=10, min_multi=0)
    seen = {}
    for o in obs:
        k = json.dumps(o["obs"]["seen"], sort_keys=True)
        seen[k] = seen.get(k, 0) + 1
    run.cov["internal_paths_observed"] = seen
    run.cov["traces_validated_against_impl"] += len(obs)
    run.cov["path_classes_reached"] = sorted(classes)
    tags = {}
    for i, tag in bad:
        tags[tag] = tags.get(tag, 0) + 1
        o = obs[i]
        run.violation("C16 %s: cfg=%s argv=%s | %s -> rc=%s/%s %s" % (tag, json.dumps(o["cfg"]), o["argv1"], o["argv2"], o["obs"]["rc1"], o["obs"]["rc2"], o["obs"]["err"][-150:]),
                      {"kind": "cli16", "tag": tag, "cfg": o["cfg"], "argv1": o["argv1"], "argv2": o["argv2"], "obs": {k: o["obs"][k] for k in ("rc1", "rc2", "parsed", "err")},
                       "back_head": o["obs"]["back"][:10]})
    if tags:
        log("[C16] failing observations by tag: %s" % tags)
    run.cov["rule"] = ("configurations drawn by random walks of MC_Cli over the cross product (kind, text, -t, --parallel, --single-pass, --inmemory, --uncompressed, --block-size, --zooms, "
                       "flag style native/UCSC, invocation own-name/multicall/mixed-case, back-conversion threads/inmemory, restriction none/chrom/range); each = two runs of the real binaries; "
                       "non-trivial = several threads, UCSC spelling or a restricted output; distinct by configuration")
    run.sample({"cfg": obs[0]["cfg"], "argv1": obs[0]["argv1"], "argv2": obs[0]["argv2"], "back_head": obs[0]["obs"]["back"][:3]})
    run.assumptions += ["values are compared after narrowing to f32 (tokens of a fixed value table), extra columns byte for byte",
                        "--parallel auto only selects the parallel source for inputs >= 200 MB: the parallel path is reached with -p yes",
                        "which internal path ran is observed (hook points path.* via BIGTOOLS_VERIF_TRACE) and compared with Cli!PathClass; the runtime flavour is not observed"]
    return run.finish()


# ---------------------------------------------------------------------------------------------
# C17: bigwigaverageoverbed / bigwigvaluesoverbed
# ---------------------------------------------------------------------------------------------
def milli(txt):
    """'12.500' -> (12500, 0); 'NaN' -> (0, 1)"""
    t = txt.strip()
    if t.lower() in ("nan", "-nan"):
        return 0, 1
    if t.lower() in ("inf", "-inf"):
        return 0, 2
    neg = t.startswith("-")
    t = t.lstrip("+-")
    if "e" in t.lower():
        v = round(float(t) * 1000)
        return (-v if neg else v), 0
    ip, _, fp = t.partition(".")
    fp = (fp + "000")[:3]
    v = int(ip or "0") * 1000 + int(fp)
    return (-v if neg else v), 0


def pool_trace(trace_file, rc, bad_offsets=()):
    """hook events `avg.*` of one traced bigwigaverageoverbed run -> the ndjson lines Trace_ChunkPool reads.
    Pure renaming: thread ids -> 0 (main), 1.. (workers, by first appearance); range start offsets -> 1..K in queue order.
    `bad_offsets`: byte offsets of malformed BED lines (the ranges holding them must fail)."""
    evs = []
    try:
        for line in open(trace_file):
            f = line.split()
            if len(f) == 4 and f[0].startswith("avg."):
                evs.append((f[0][4:], int(f[1]), int(f[2])))
        os.remove(trace_file)
    except OSError:
        return None
    chunks = [(a, b) for n, a, b in evs if n == "chunk"]
    if not chunks:
        return None
    idx = {a: i + 1 for i, (a, b) in enumerate(chunks)}
    tid = {0: 0}
    out = []
    for n, a, b in evs:
        if n == "chunk":
            continue
        if n in ("recv", "closed", "got", "send"):
            t = tid.setdefault(b, len(tid))
            out.append({"ev": n, "t": t, "c": idx.get(a, 0) if n in ("got", "send") else 0, "e": 0})
        else:
            out.append({"ev": n, "t": 0, "c": a, "e": b if n == "emit" else 0})
    out.append({"ev": "exit", "t": 0, "c": 0 if rc == 0 else 1, "e": 0})
    fail = sorted({i + 1 for i, (a, b) in enumerate(chunks) for o in bad_offsets if a <= o < b})
    head = {"ev": "header", "t": 0, "c": 0, "e": 0, "k": len(chunks), "w": max(len(tid) - 1, 0), "fail": fail}
    return [head] + out


def validate_pool_traces(run, traced, label="chunk_pool_trace_validation", min_traces=5):
    """implementation -> spec: each traced -t N run of the real tool against ChunkPool.tla (Trace_ChunkPool)"""
    from concurrent.futures import ThreadPoolExecutor
    jobs = []
    for i, (desc, lines) in enumerate(traced):
        path = os.path.join(run.wd, "pool_%d.ndjson" % i)
        with open(path, "w") as f:
            for e in lines:
                f.write(json.dumps(e) + "\n")
        jobs.append((i, path, desc, lines))

    def one(j):
        i, path, desc, lines = j
        for attempt in range(3):
            r = tlc("Trace_ChunkPool", "Trace_ChunkPool.cfg", os.path.join(run.wd, "tlc_pool_%d_%d" % (i, attempt)), env={"TRACE": path}, workers=1, timeout=600,
                    xmx="1g", dfs=True, collect_replays=False)
            if r.violation or any(x.startswith('<<"ACCEPTED"') or x.startswith('<<"REJECTED"') for x in r.prints):
                break
            time.sleep(1 + attempt)
        return j, r
    with ThreadPoolExecutor(max_workers=max(2, NCPU // 2)) as ex:
        res = list(ex.map(one, jobs))
    # a validator that gave no verdict while many ran side by side (a starved JVM) is run once more on its own, with a longer limit
    def _verdict(r):
        return bool(r.violation) or any(x.startswith('<<"ACCEPTED"') or x.startswith('<<"REJECTED"') for x in r.prints)
    res = [(j, r) if _verdict(r) else one(j) for j, r in res]
    acc, rej, states, helped, waited, failed, kmax, wmax = 0, [], 0, 0, 0, 0, 0, 0
    for (i, path, desc, lines), r in res:
        states += r.generated
        if r.violation and ("Invariant" in r.violation or "violated" in r.violation):
            run.violation("C17: an invariant of ChunkPool.tla (Ordered / ExactlyOnce / WaitSafe / Outcome) is violated on an OBSERVED schedule of bigwigaverageoverbed: %s" % json.dumps(desc),
                          {"kind": "pool-trace", "config": desc, "trace": lines[:200], "tlc": r.violation[:1500]})
            continue
        if any(x.startswith('<<"ACCEPTED"') for x in r.prints):
            acc += 1
            helped += 1 if any(e["ev"] == "got" and e["t"] == 0 for e in lines) else 0
            waited += 1 if any(e["ev"] == "wait" for e in lines) else 0
            failed += 1 if lines[0]["fail"] else 0
            kmax, wmax = max(kmax, lines[0]["k"]), max(wmax, lines[0]["w"])
        elif any(x.startswith('<<"REJECTED"') for x in r.prints):
            h = int([x for x in r.prints if x.startswith('<<"REJECTED"')][0].split(",")[1].strip(" >"))
            rej.append({"config": desc, "header": lines[0], "matched_events": max(0, h - 2), "next_event": lines[h - 1] if 0 < h - 1 < len(lines) else None})
        else:
            raise ToolError("chunk pool trace validation gave no verdict:\n" + r.out[-2000:])
    run.cov[label] = {"runs_traced": len(traced), "accepted": acc, "rejected": len(rej), "runs_where_main_helped": helped, "runs_where_main_blocked": waited,
                      "runs_with_a_failing_range": failed, "max_ranges": kmax, "max_workers": wmax, "tlc_states": states, "rejections": rej[:5]}
    run.cov["states"] += states
    run.cov["traces_validated_against_impl"] += acc
    if len(traced) < min_traces:
        raise ToolError("vacuity: %s too thin (%d traces)" % (label, len(traced)))
    return rej


def make_bigwig(tdir, d, tag, items, size=None):
    """bigWig with integer values written by the real CLI (plumbing for C17 / C15)"""
    nch = max([it[0] for it in items] + [1])
    size = size or (max([it[2] for it in items] + [1]) + 20)
    sizes = os.path.join(d, "s_%s.sizes" % tag)
    with open(sizes, "w") as f:
        for c in range(1, nch + 1):
            f.write("%s\t%d\n" % (chrom_name(c), size))
    bg = os.path.join(d, "i_%s.bedGraph" % tag)
    with open(bg, "w") as f:
        for it in items:
            f.write("%s\t%d\t%d\t%d\n" % (chrom_name(it[0]), it[1], it[2], it[3]))
    bw = os.path.join(d, "b_%s.bw" % tag)
    rc, _, err = run_tool(tdir, "own", "bedgraphtobigwig", [bg, sizes, bw, "-t", "1"])
    if rc != 0:
        raise ToolError("cannot prepare bigWig for the CLI checks: " + err[-300:])
    return bw, sizes


def c17_case(tdir, d, k, b):
    tag = "c17_%d" % k
    # one data block per value (items_per_slot = 1, written through the library: the CLI cannot set it)
    bw = os.path.join(d, "bw_%s.bw" % tag)
    import shutil as _sh
    _sh.copyfile(b["bwpath"], bw)
    bed = os.path.join(d, "r_%s.bed" % tag)
    with open(bed, "w", newline="") as f:
        for i, r in enumerate(b["regions"], 1):
            # every fifth list: a sixth column of 20 000 characters on every third line (lines longer than any reader buffer)
            extra = ("\t" + "annotation" * 2000) if (k % 5 == 0 and i % 3 == 1) else ""
            # (every third list: Windows line ends; every fourth: the last line is not terminated)
            eol = "" if (k % 4 == 3 and i == len(b["regions"])) else ("\r\n" if k % 3 == 1 else "\n")
            f.write("%s\t%d\t%d\tr%d\tx%d%s%s" % (chrom_name(r[0]), r[1], r[2], i, i, extra, eol))
    out = os.path.join(d, "o_%s.txt" % tag)
    args = [bw, bed, out, "-t", str(b["threads"])]
    nm = b["name"]
    if nm == "col4":
        args += ["-n", "4"]
    elif nm == "col5":
        args += ["--namecol", "5"]
    elif nm in ("interval", "none"):
        args += ["-n", nm]
    if b["minmax"]:
        args.append("--min-max")
    for stale in (out, out + ".t1", out + ".v", out + ".vn"):       # longer files from "an earlier run" are already there
        with open(stale, "wb") as f:
            f.write(b"stale\t1\t1\t1.000\t1.000\t1.000\n" * 5000)
    # every few multi-threaded runs: recorded at the hook points of the chunk pool (seeded pauses), validated against ChunkPool.tla
    traced = b["threads"] > 1 and k % int(os.environ.get("C17_TRACE_EVERY", "4")) == 0
    trf = os.path.join(d, "tr_%s.txt" % tag)
    rc, _, err = run_tool(tdir, "own", "bigwigaverageoverbed", args, trace=trf if traced else None, seed=(k * 7919 + 13) if traced and k % 8 else None)
    pool = pool_trace(trf, rc) if traced else None
    raw = open(out, "rb").read() if os.path.exists(out) else b""
    rows, parsed = [], 1
    try:
        for line in raw.decode().splitlines():
            p = line.split("\t")
            if nm == "none":
                name = int(p[3][1:]) if p[3].startswith("r") else 0
                ok = p[0] == chrom_name(b["regions"][name - 1][0]) and int(p[1]) == b["regions"][name - 1][1] and int(p[2]) == b["regions"][name - 1][2] and p[4] == "x%d" % name if name else False
                name = name if ok else 0
                # (the rows that carry the long sixth column echo it too)
                has_extra = bool(name) and k % 5 == 0 and name % 3 == 1
                if has_extra and p[5] != "annotation" * 2000:
                    name = 0
                p = p[6:] if has_extra else p[5:]
            elif nm == "interval":
                ch, _, se = p[0].partition(":")
                s_, _, e_ = se.partition("-")
                idx = len(rows) + 1
                r = b["regions"][idx - 1] if idx <= len(b["regions"]) else None
                name = idx if r and ch == chrom_name(r[0]) and int(s_) == r[1] and int(e_) == r[2] else 0
                p = p[1:]
            else:
                pre = "x" if nm == "col5" else "r"
                name = int(p[0][1:]) if p[0].startswith(pre) else 0
                p = p[1:]
            row = {"name": name, "size": int(p[0]), "bases": int(p[1])}
            row["sum_m"], _ = milli(p[2])
            row["mean0_m"], row["mean0_nan"] = milli(p[3])
            row["mean_m"], row["mean_nan"] = milli(p[4])
            if b["minmax"]:
                row["min_m"], row["min_nan"] = milli(p[5])
                row["max_m"], row["max_nan"] = milli(p[6])
            else:
                row["min_m"], row["min_nan"], row["max_m"], row["max_nan"] = 0, 0, 0, 0
            rows.append(row)
    except Exception:
        parsed = 0
    # the same request single-threaded: the bytes must be identical
    out1 = out + ".t1"
    args1 = [bw, bed, out1] + args[3:]
    args1[args1.index("-t") + 1] = "1"
    rc1, _, _ = run_tool(tdir, "own", "bigwigaverageoverbed", args1)
    raw1 = open(out1, "rb").read() if os.path.exists(out1) else b"?"
    # values over bed
    outv = out + ".v"
    rcv, _, errv = run_tool(tdir, "own", "bigwigvaluesoverbed", [bw, bed, outv])
    vrows, vparsed = [], 1
    try:
        for line in open(outv).read().splitlines():
            vrows.append([milli(x)[0] for x in line.split("\t")] if line else [])
    except Exception:
        vparsed = 0
    # ... and with -n: a label (the name column, or chrom:start-end when the names are not known to be unique) before the same values
    outn = out + ".vn"
    rcn, _, errn = run_tool(tdir, "own", "bigwigvaluesoverbed", [bw, bed, outn, "-n"])
    nrows, nparsed = [], 1
    try:
        for i, line in enumerate(open(outn).read().splitlines(), 1):
            p = line.split("\t")
            r = b["regions"][i - 1]
            if p[0] not in ("r%d" % i, "%s:%d-%d" % (chrom_name(r[0]), r[1], r[2])):
                nparsed = 0
            nrows.append([milli(x)[0] for x in p[1:]])
    except Exception:
        nparsed = 0
    for p in (bw, bed, out, out1, outv, outn):
        try:
            os.remove(p)
        except OSError:
            pass
    base = {k2: b[k2] for k2 in ("ds", "items", "regions", "name", "minmax", "threads")}
    return [dict(base, tool="average", pool=pool, obs={"rc": rc, "parsed": parsed, "rows": rows, "same_as_t1": 1 if (rc1 == 0 and raw == raw1) else 0, "err": err[-200:]}),
            dict(base, tool="values", obs={"rc": rcv, "parsed": vparsed, "vrows": vrows, "err": errv[-200:]}),
            dict(base, tool="values", named=1, obs={"rc": rcn, "parsed": nparsed, "vrows": nrows, "err": errn[-200:]})]


def c17_main():
    run = Run("C17")
    r = tlc("MC_Stats", "MC_Stats.cfg", os.path.join(run.wd, "mc"), workers=4, timeout=1200)
    tlc_must_pass(r, "MC_Stats")
    run.add_tlc("stats_configurations", r)
    beh = r.replays
    if len(beh) < 100:
        raise ToolError("vacuity: %d configurations" % len(beh))
    if not run.thorough:
        # a seeded half, chosen per configuration (not by position in TLC's output order)
        import hashlib as _h
        beh = [b for b in beh if (_h.blake2b(json.dumps(b, sort_keys=True).encode(), digest_size=2).digest()[0] + run.seed) % 2 == 0]
    tdir = tools_dir()
    d = os.path.join(run.wd, "files")
    os.makedirs(d, exist_ok=True)
    dss = {}
    for b in beh:
        dss.setdefault(b["ds"], b["items"])
    wc = []
    for ds, items in sorted(dss.items()):
        wc.append({"kind": "bw", "chroms": [40] * max(it[0] for it in items), "items": items, "vmap": "int", "scale": 1, "allq": 0, "zq": 0, "mz": [], "asq": "bed3", "long": 0,
                   "opts": {"ips": 1, "bs": 2, "zooms": [], "zmode": "manual", "compress": 1, "inmem": 1, "rt": "current", "threads": 1, "pass": 1, "chan": 100,
                            "sort": "all" if [it[0] for it in items] == sorted(it[0] for it in items) else "start"},
                   "dump": os.path.join(d, "ds%d.bw" % ds), "ds": ds})
    for o in run_harness("bbi", wc, run.wd, shards=1):
        # (the harness also reads the file back; whether THAT works is C01's business: C17 only needs the file)
        if not (os.path.exists(o["dump"]) and os.path.getsize(o["dump"]) > 0):
            raise ToolError("cannot prepare the bigWig for C17: %s" % o["obs"])
    for b in beh:
        b["bwpath"] = os.path.join(d, "ds%d.bw" % b["ds"])
    res = run_parallel(lambda kb: c17_case(tdir, d, kb[0], kb[1]), list(enumerate(beh)))
    obs = [o for pair in res for o in pair]
    # design level: ChunkPool.tla - every interleaving of K ranges, W workers and the helping main thread, for every failure pattern
    # of the configurations below: Ordered, ExactlyOnce, WaitSafe, Outcome, NoSkippedFailure and termination under weak fairness
    for cfgname in ["ChunkPool_a.cfg", "ChunkPool_b.cfg", "ChunkPool_c.cfg", "ChunkPool_d.cfg", "ChunkPool_e.cfg", "ChunkPool_f.cfg", "ChunkPool_g.cfg"] + (["ChunkPool_t.cfg"] if run.thorough else []):
        rr = tlc("ChunkPool", cfgname, os.path.join(run.wd, "pool_" + cfgname[:-4]), workers=4, timeout=1800, collect_replays=False)
        tlc_must_pass(rr, "ChunkPool.tla (%s)" % cfgname)
        run.add_tlc(cfgname[:-4], rr)
    # ... for ANY number of ranges and workers: ChunkPoolInd.tla (the queue as the index of its head) - its invariant is proved inductive
    # with TLAPS (58 obligations, SMT + PTL back ends, from an empty cache) and implies WaitSafe and ExactlyOnce; TLC checks that ChunkPool.tla
    # refines it.  An unproved obligation is a defect of the abstract model or of the proof script: a tool error, never a violation of C17
    for cfgname in ("MC_ChunkPool_refine_a.cfg", "MC_ChunkPool_refine_b.cfg", "MC_ChunkPool_refine_c.cfg"):
        rr = tlc("MC_ChunkPool_refine", cfgname, os.path.join(run.wd, "pool_" + cfgname[:-4]), workers=4, timeout=900, collect_replays=False)
        tlc_must_pass(rr, "ChunkPool.tla refines ChunkPoolInd.tla (%s)" % cfgname)
        run.add_tlc(cfgname[:-4], rr)
    import shutil as _sh
    exe = _sh.which("tlapm")
    if not exe:
        raise ToolError("tlapm is not on PATH")
    t0 = time.time()
    try:
        pp = subprocess.run([exe, "--threads", "4", "--cache-dir", os.path.join(run.wd, "tlaps_cache"), "ChunkPoolIndProof.tla"], cwd=SPEC, stdout=subprocess.PIPE, stderr=subprocess.STDOUT, text=True, timeout=1500)
    except subprocess.TimeoutExpired:
        raise ToolError("tlapm timed out on ChunkPoolIndProof.tla")
    mm = re.search(r"All (\d+) obligations? proved", pp.stdout)
    if not mm:
        raise ToolError("tlapm did not prove ChunkPoolIndProof.tla:\n" + pp.stdout[-1500:])
    run.cov["tlaps_proof"] = {"module": "ChunkPoolIndProof", "obligations_proved": int(mm.group(1)), "wall_s": round(time.time() - t0, 1),
                              "theorems": "IndInv inductive for any K, W, Fail; IndInv => WaitSafe; IndInv => ExactlyOnce; Spec => [](WaitSafe /\\ ExactlyOnce)"}
    # the chunk pool as the real tool ran it (implementation -> ChunkPool.tla)
    traced = []
    for o in obs:
        pl = o.pop("pool", None)
        if pl:
            traced.append(({"threads": o["threads"], "regions": len(o["regions"]), "name": o["name"], "ds": o["ds"]}, pl))
    # ... and its error path: one malformed line somewhere in a 40-line BED file; the range holding it fails, the run must end with an error
    rg = random.Random(run.seed + 17)
    for j in range(24 if run.thorough else 8):
        b0 = next(b for b in beh if len(b["regions"]) >= 30)
        bed = os.path.join(d, "bad_%d.bed" % j)
        badline = rg.randint(1, len(b0["regions"]))
        off, bad_off = 0, []
        with open(bed, "w") as f:
            for i, r_ in enumerate(b0["regions"], 1):
                line = "%s\t%d\t%d\tr%d\tx%d\n" % (chrom_name(r_[0]), r_[1], r_[2], i, i)
                if i == badline:
                    line = "%s\tnotanumber\t%d\tr%d\tx%d\n" % (chrom_name(r_[0]), r_[2], i, i)
                    bad_off.append(off)
                f.write(line)
                off += len(line)
        th = rg.choice([2, 3, 4, 8, 16])
        trf = os.path.join(d, "trbad_%d.txt" % j)
        rc, _, err = run_tool(tdir, "own", "bigwigaverageoverbed", [b0["bwpath"], bed, os.path.join(d, "bad_%d.out" % j), "-t", str(th)], trace=trf, seed=rg.randint(1, 10 ** 6) if j % 3 else None)
        pl = pool_trace(trf, rc, bad_off)
        if pl:
            traced.append(({"threads": th, "regions": len(b0["regions"]), "malformed_line": badline, "rc": rc}, pl))
    corrupt = os.environ.get("C17_POOL_CORRUPT")
    if corrupt:
        # binding self-test (see DESIGN): damage ONE recorded run; the validation must reject exactly that one
        if False:
            pass
        elif corrupt == "swap-emit":
            desc, pl = next(x for x in traced if sum(1 for e in x[1] if e["ev"] == "emit") >= 2)
            em = [e for e in pl if e["ev"] == "emit"]
            em[0]["c"], em[1]["c"] = em[1]["c"], em[0]["c"]
        elif corrupt == "twice":
            desc, pl = next(x for x in traced if x[1][0]["k"] >= 2 and x[1][0]["w"] >= 2)
            g = next(e for e in pl if e["ev"] == "got" and e["t"] > 0)
            other = next(e for e in pl if e["ev"] == "got" and e["t"] not in (0, g["t"]))
            other["c"] = g["c"]            # two threads claim the same range
        elif corrupt == "exit-ok":
            desc, pl = next(x for x in traced if x[1][0]["fail"])
            pl[-1]["c"] = 0                # a run that met a failing range "exits 0"
        log("[C17] CORRUPTED one recorded run (%s): %s" % (corrupt, json.dumps(desc)))
    rej = validate_pool_traces(run, traced)
    run.drift += len(rej)
    for x in rej[:3]:
        log("[C17] MODEL-DRIFT detail: observed schedule of the chunk pool not explained by ChunkPool.tla: %s" % json.dumps(x)[:500])
    # library level: stats_for_bed_item / bigwig_average_over_bed through the harness
    lib = run_harness("stats", [{"items": b["items"], "regions": b["regions"], "minmax": 1, "name": b["name"], "ds": b["ds"], "threads": 0} for b in beh[::5]], run.wd)
    for o in lib:
        o.pop("case", None)
        o["tool"] = "average"
        obs.append(o)
    # the Python binding: average_over_bed of the real extension module (anchor pybigtools/src/lib.rs)
    try:
        from checks.c20 import build_extension, VENV_PY
        moddir = build_extension()
        pin, pout = os.path.join(run.wd, "aob_in.ndjson"), os.path.join(run.wd, "aob_out.ndjson")
        with open(pin, "w") as f:
            for k, b in enumerate(beh[::3]):
                bed = os.path.join(d, "aob_%d.bed" % k)
                with open(bed, "w") as g:
                    for i, r_ in enumerate(b["regions"], 1):
                        g.write("%s\t%d\t%d\tr%d\tx%d\n" % (chrom_name(r_[0]), r_[1], r_[2], i, i))
                f.write(json.dumps({"mode": "aob", "path": b["bwpath"], "bed": bed, "regions": b["regions"], "items": b["items"], "name": b["name"], "ds": b["ds"],
                                    "minmax": 1, "threads": -1, "chroms": [chrom_name(c_) for c_ in range(1, 5)], "tool": "average", "statslist": k % 2}) + "\n")
        subprocess.run([VENV_PY, os.path.join(ROOT, "pyverif", "py_driver.py"), moddir, pin, pout], timeout=900, stdout=subprocess.PIPE, stderr=subprocess.PIPE)
        for line in open(pout):
            o = json.loads(line)
            for kk in ("path", "bed", "chroms", "mode", "statslist"):
                o.pop(kk, None)
            obs.append(o)
        run.cov["python_average_over_bed_runs"] = len(beh[::3])
    except ToolError:
        raise
    lines = []
    for o in obs:
        lines.append(json.dumps(o, separators=(",", ":")))
        run.count_case(json.dumps({k: o[k] for k in o if k not in ("obs", "items")}, sort_keys=True), len(o["regions"]) > 1)
    bad = validate_obs("Obs_Stats", "Obs.cfg", lines, run.wd, "obs", shards=4)
    run.cov["traces_validated_against_impl"] += len(obs)
    tags = {}
    for i, tag in bad:
        tags[tag] = tags.get(tag, 0) + 1
        o = obs[i]
        run.violation("C17 %s: tool=%s ds=%s name=%s minmax=%s -t %s regions=%s -> %s" % (tag, o["tool"], o["ds"], o["name"], o["minmax"], o["threads"], json.dumps(o["regions"])[:120], json.dumps(o["obs"])[:300]),
                      {"kind": "cli17", "tag": tag, "case": {k: o[k] for k in o if k != "obs"}, "obs": o["obs"]})
    if tags:
        log("[C17] failing observations by tag: %s" % tags)
    run.cov["rule"] = ("the full product data set x region-list length {1,3,40} x name mode {col 4, col 5, interval, none, default} x --min-max x -t {1,2,3,8,16} x region rule {mixed widths, fixed-width windows} from MC_Stats; regions inside, "
                       "straddling, between and outside data; bigwigaverageoverbed (also compared byte for byte with -t 1), bigwigvaluesoverbed, and the library functions; "
                       "non-trivial = more than one region")
    run.sample(obs[0])
    run.assumptions += ["integer-valued data; quotients are checked against the 3-decimal text by cross multiplication", "regions on chromosomes absent from the bigWig are out of scope"]
    return run.finish()


# ---------------------------------------------------------------------------------------------
# C15 (tool part): bigwigmerge
# ---------------------------------------------------------------------------------------------
def merge_case(tdir, d, k, b):
    tag = "m%d" % k
    size = 30
    bws = []
    for j, inp in enumerate(b["inputs"]):
        bw, _ = make_bigwig(tdir, d, "%s_%d" % (tag, j), inp, size=size)
        bws.append(bw)
    outkind = b["out"]
    ext = {"bw": "bw", "bigWig": "bigWig", "bedGraph": "bedGraph"}.get(outkind, "out")
    out = os.path.join(d, "merged_%s.%s" % (tag, ext))
    style = b.get("style", "native")
    if style != "native" and outkind.startswith("type-"):
        outkind, ext = "bedGraph", "bedGraph"
        out = os.path.join(d, "merged_%s.%s" % (tag, ext))
    names = [bw for bw, m in zip(bws, b.get("mult") or [1] * len(bws)) for _ in range(m)]
    listfile = os.path.join(d, "list_%s.txt" % tag)
    if style in ("list", "ucsc-list"):
        open(listfile, "w").write("\n".join(names) + "\n")
    listfile2 = os.path.join(d, "list2_%s.txt" % tag)
    third = max(1, len(names) // 3)
    if style == "mixed":
        # some inputs with -b, the others in TWO list files: every input counts, however it was named
        open(listfile, "w").write("\n".join(names[third:2 * third]) + "\n")
        open(listfile2, "w").write("\n".join(names[2 * third:]) + ("\n" if names[2 * third:] else ""))
    ucsc = style.startswith("ucsc")
    opts = []
    if outkind == "type-bigwig":
        opts += ["--output-type", "bigwig"]
    if outkind == "type-BedGraph":
        opts += ["--output-type", "BedGraph"]
    if b["clip"]:
        opts += ["-clip=%s" % b["clip"]] if ucsc else ["--clip", str(b["clip"])]
    if b["adjust"]:
        opts += ["-adjust=%s" % b["adjust"]] if ucsc else ["--adjust", str(b["adjust"])]
    if b["thr"]:
        opts += ["-threshold=%s" % b["thr"]] if ucsc else ["--threshold", str(b["thr"])]
    if style == "native":
        args = [out] + [x for n_ in names for x in ("-b", n_)] + opts + ["-t", str(b["threads"])]
    elif style == "list":
        args = [out, "-l", listfile] + opts + ["-t", str(b["threads"])]
    elif style == "mixed":
        args = [out] + [x for n_ in names[:third] for x in ("-b", n_)] + ["-l", listfile, "-l", listfile2] + opts + ["-t", str(b["threads"])]
    elif style == "ucsc":
        args = opts + names + [out]              # the kent call: bigWigMerge [options] in1.bw in2.bw .. out
    else:
        args = opts + ["-inList", listfile, out]
    # every fortieth merge (those that write a bigWig): all hook events, for trace validation of the write pipeline fed by the merge tool's
    # own data source (ChromGroupRead)
    with open(out, "wb") as f:            # a longer file from "an earlier run" is already there
        f.write(b"chrAa\t0\t1\t9\n" * 20000)
    trf = os.path.join(d, "trm_%s.txt" % tag) if (k % 40 == 0 and outkind in ("bw", "bigWig", "type-bigwig")) else None
    rc, _, err = run_tool(tdir, "mixedcase" if ucsc else "own", "bigwigmerge", args, trace=trf)
    events = None
    if trf:
        events = []
        path_events(trf, events)
    produced = 1 if os.path.exists(out) and os.path.getsize(out) > 0 else 0
    # "bases absent where the thresholded sum is absent": an input set whose merged result is empty legitimately gives an empty bedGraph
    is_bw = outkind in ("bw", "bigWig", "type-bigwig")
    text = out
    rc2 = 0
    if produced and is_bw:
        text = out + ".txt"
        rc2, _, err2 = run_tool(tdir, "own", "bigwigtobedgraph", [out, text, "-t", "1"])
        err += err2
    elif not is_bw and os.path.exists(out):
        produced = 1
    recs, parsed = [], 1
    if produced and rc2 == 0:
        try:
            from pyverif.image import chrom_idx
            for line in open(text).read().splitlines():
                p = line.split("\t")
                v = float(p[3])
                if v != int(v):
                    parsed = 0
                recs.append([chrom_idx(p[0]), int(p[1]), int(p[2]), int(v)])
        except Exception:
            parsed = 0
    else:
        parsed = 1 if not produced else 0
    for p in bws + [out, out + ".txt", listfile]:
        try:
            os.remove(p)
        except OSError:
            pass
    return dict(b, mode="tool", events=events if rc == 0 else None, argv=[a for a in args if a != out], obs={"rc": rc, "produced": produced, "parsed": parsed, "out": recs, "err": err[-300:]})


def merge_tool_part(run):
    r = tlc("MC_MergeTool", "MC_MergeTool.cfg", os.path.join(run.wd, "mc_tool"), workers=4, timeout=1200)
    tlc_must_pass(r, "MC_MergeTool")
    run.add_tlc("merge_tool_configurations", r)
    beh = r.replays
    if len(beh) < 200:
        raise ToolError("vacuity: %d merge tool configurations" % len(beh))
    if not run.thorough:
        many = [b for b in beh if max(b["mult"]) > 1]
        beh = [b for b in beh if max(b["mult"]) == 1][run.seed % 7::7] + many[run.seed % 12::12]
    tdir = tools_dir()
    d = os.path.join(run.wd, "mfiles")
    os.makedirs(d, exist_ok=True)
    obs = run_parallel(lambda kb: merge_case(tdir, d, kb[0], kb[1]), list(enumerate(beh)))
    traced = [({"source": "bigwigmerge", "ds": o["ds"], "style": o.get("style"), "out": o["out"]}, o["events"]) for o in obs if o.get("events")]
    if traced:
        from checks.c11 import validate_pipeline_traces
        validate_pipeline_traces(run, traced, label="merge_tool_pipeline_trace_validation", min_lanes=4, min_multi=0)
    lines = []
    for o in obs:
        lines.append(json.dumps({k: o[k] for k in o if k not in ("argv", "events")}, separators=(",", ":")))
        run.count_case(json.dumps({k: o[k] for k in o if k not in ("obs", "inputs", "argv", "events")}, sort_keys=True), True)
    bad = validate_obs("Obs_Merge", "Obs.cfg", lines, run.wd, "tool", shards=4)
    run.cov["traces_validated_against_impl"] += len(obs)
    tags = {}
    for i, tag in bad:
        tags[tag] = tags.get(tag, 0) + 1
        o = obs[i]
        opts = [a for a in o["argv"] if a != "-b" and not a.endswith(".bw")]
        run.violation("C15 merge tool %s: ds=%s style=%s inputs x %s options=%s -> %s" % (tag, o["ds"], o.get("style"), o.get("mult"), opts, json.dumps(o["obs"])[:300]),
                      {"kind": "cli15", "tag": tag, "case": {k: o[k] for k in o if k not in ("obs", "argv", "events")}, "options": opts, "obs": o["obs"]})
    if tags:
        log("[C15] merge tool failing observations by tag: %s" % tags)
    run.sample({k: obs[0][k] for k in ("ds", "argv", "obs")})
