"""C07 — bigWig zoom levels are faithful reductions (inputs x configurations)."""
from checks.bbi_family import *


def main():
    run = Run("C07")
    cfgs = ["MC_BigWig_z_t1.cfg", "MC_BigWig_z_t2.cfg"] if run.thorough else ["MC_BigWig_z_q1.cfg", "MC_BigWig_z_q2.cfg"]
    beh = [b for b in emit(run, "MC_BigWig", cfgs) if b["zooms"]]
    sizes = lambda b: [b["L"]] * b["NC"]
    cases = make_cases(beh, "bw", sizes, run, zq=1)
    # the same layouts under an affine embedding of positions (resolutions scale with it: exact)
    emb = make_cases(beh[::5], "bw", sizes, run, zq=0)
    for k, c in enumerate(emb):
        c["scale"] = [7, 1000, 65536][k % 3]
    def nt(o):
        # has a gap >= a resolution, or a value spanning >= 2 records of some level
        z = min(o["opts"]["zooms"])
        its = o["items"]
        gap = any(its[i + 1][0] == its[i][0] and its[i + 1][1] - its[i][2] >= z for i in range(len(its) - 1))
        span = any(it[2] - it[1] > z for it in its)
        return gap or span
    desc = lambda o: {k: o["obs"].get(k) for k in ("result", "err", "zooms", "zint", "unmapped")}
    obs = judge(run, "C07", "Obs_BigWig", cases + emb, nt, desc)
    run.cov["rule"] = ("every layout within the TLC bounds x manual zoom lists x items_per_slot; free options paired; a fifth replayed under affine "
                       "position embeddings x7/x1000/x65536; non-trivial = a gap >= the finest resolution or a value longer than it; distinct by (items, ips, zooms, scale)")
    run.sample({"items": obs[len(obs) // 3]["items"], "opts": obs[len(obs) // 3]["opts"], "zooms": obs[len(obs) // 3]["obs"].get("zooms")})
    run.assumptions += ["integer-valued data: statistics are compared exactly; f32 narrowing of zoom records is exact in this range",
                        "automatic zoom ladders are exercised in the thorough tier through scaled embeddings only"]
    return run.finish()


if __name__ == "__main__":
    main_wrap(main)
