"""C07 — bigWig zoom levels are faithful reductions (inputs x configurations)."""
import json
from checks.bbi_family import *


def main():
    run = Run("C07")
    cfgs = ["MC_BigWig_z_t1.cfg", "MC_BigWig_z_t2.cfg"] if run.thorough else ["MC_BigWig_z_q1.cfg", "MC_BigWig_z_q2.cfg"]
    sizes = lambda b: [b["L"]] * b["NC"]

    def build(beh, k0):
        beh = [b for b in beh if b["zooms"]]
        if run.thorough and not SWEEP:
            # the thorough enumeration is millions of layouts x every zoom query: a seeded stratum (1/4) per run keeps the tier under the hour
            beh = beh[run.seed % 4::4]
        cases = make_cases(beh, "bw", sizes, run, zq=1, k0=k0)
        for k, c in enumerate(cases):
            if k % 10 == 7 and any(it[3] == 3 for it in c["items"]):
                c["vmap"] = "intinf"         # value token 3 is +infinity in these files (0 * inf must not leak NaN into other records)
                c["zq"] = 0
                run.cov["infinite_value_cases"] = run.cov.get("infinite_value_cases", 0) + 1
        # the same layouts under an affine embedding of positions (resolutions scale with it: exact)
        emb = make_cases(beh[::5], "bw", sizes, run, zq=0, k0=k0)
        for k, c in enumerate(emb):
            # the last one puts positions beyond 2^31 and zoom-record ends beyond 2^32 (a power of two: f32 statistics stay exact)
            c["scale"] = [7, 1000, 65536, 2 ** 29 if max(c["chroms"]) <= 7 else 2 ** 28][k % 4]
        return cases + emb
    # automatic zoom ladders need inputs large enough for a level to be kept (levels are pruned by size):
    # longer seeded inputs, small items_per_slot, initial zoom size 10 or 160, single and two pass
    import random as _r
    rg = _r.Random(run.seed + 7)
    auto = []
    for k in range(12 if run.thorough else 4):
        items, L = [], 0
        for c in (1, 2):
            p = rg.randint(0, 5)
            for _ in range(rg.choice([150, 260])):
                ln = rg.randint(1, 5)
                s_ = p if True else max(0, p - rg.choice([0, 0, 2]))
                items.append([c, s_, s_ + ln, rg.randint(1, 3)])
                p = s_ + ln + rg.choice([0, 0, 1, 3, 25])
            L = max(L, p + 5)
        if False:
            items.sort(key=lambda it: (it[0], it[1]))
        auto.append({"kind": "bw", "chroms": [L, L], "items": items, "vmap": "int", "allq": 0, "zq": 0, "mz": [], "scale": 1, "asq": "bed3", "long": 0,
                     "msum": {"bases": 0, "sum": 0, "sumsq": 0, "min": 0, "max": 0, "int": 1},
                     "opts": {"ips": 4, "bs": 3, "zmode": "auto", "izs": [10, 160][k % 2], "maxz": 10, "zooms": [], "compress": k % 2, "inmem": 1, "rt": "multi", "threads": 2,
                              "pass": 1 + (k // 2) % 2, "chan": 100, "sort": "all"}})
    # more manual zoom sizes than the header has room for (10 entries): the file must stay readable and every level it lists faithful
    for k, a in enumerate(list(auto)[:2]):
        m = json.loads(json.dumps(a))
        m["opts"].update({"zmode": "manual", "zooms": [2, 3, 4, 6, 8, 12, 16, 24, 32, 48, 64, 96], "pass": 1 + k})
        m["nomech"] = 1          # no mechanism-level expectation for these (which ten levels are kept is not modelled)
        auto.append(m)
    def nt(o):
        if o["opts"].get("zmode") == "auto":
            return True
        # has a gap >= a resolution, or a value spanning >= 2 records of some level
        z = min(o["opts"]["zooms"] or [1])
        its = o["items"]
        gap = any(its[i + 1][0] == its[i][0] and its[i + 1][1] - its[i][2] >= z for i in range(len(its) - 1))
        span = any(it[2] - it[1] > z for it in its)
        return gap or span
    desc = lambda o: {k: o["obs"].get(k) for k in ("result", "err", "zooms", "zint", "unmapped")}
    obs = run_batches(run, "C07", "MC_BigWig", cfgs, "Obs_BigWig", nt, desc, build)
    # chromosomes of very unequal size, big first and big last: the file-wide figures a reader depends on (the decompression buffer
    # size in the header above all) must cover the LARGEST section of ANY chromosome and level; manual zooms [2, 8], 4 records per zoom
    # section (larger than a data section), single and two pass, compressed and not (no mechanism-level expectation: "nomech")
    for k in range(12):
        big = [[1, 2 * i, 2 * i + 1, 1 + i % 3] for i in range(60)]
        small = [[2, 3, 4, 2]]
        if k % 2:
            big, small = [[2, it[1], it[2], it[3]] for it in big], [[1, 3, 4, 2]]
        auto.append({"kind": "bw", "chroms": [130, 130], "items": sorted(big + small, key=lambda it: (it[0], it[1])), "vmap": "int", "allq": 0, "zq": 1, "mz": [], "scale": 1,
                     "asq": "bed3", "long": 0, "nomech": 1, "msum": {"bases": 0, "sum": 0, "sumsq": 0, "min": 0, "max": 0, "int": 1},
                     "opts": {"ips": 4, "bs": 3, "zmode": "manual", "zooms": [2, 8], "compress": 1 if k < 10 else 0, "inmem": (k // 4) % 2, "rt": "multi", "threads": 2,
                              "pass": 1 + (k // 2) % 2, "chan": 100, "sort": "all"}})
    obs += judge(run, "C07", "Obs_BigWig", auto, nt, desc)
    autos = [o for o in obs if o["opts"].get("zmode") == "auto"]
    run.cov["automatic_zoom_cases"] = len(autos)
    run.cov["automatic_zoom_levels_kept"] = [len(o["obs"].get("zooms", [])) for o in autos]
    if autos and not any(len(o["obs"].get("zooms", [])) >= 2 for o in autos):
        raise ToolError("vacuity: no automatic-zoom case kept two levels: %s" % run.cov["automatic_zoom_levels_kept"])
    run.cov["rule"] = ("every layout within the TLC bounds x manual zoom lists x items_per_slot; free options paired; a fifth replayed under affine "
                       "position embeddings x7/x1000/x65536; non-trivial = a gap >= the finest resolution or a value longer than it; distinct by (items, ips, zooms, scale)")
    run.sample({"items": obs[len(obs) // 3]["items"], "opts": obs[len(obs) // 3]["opts"], "zooms": obs[len(obs) // 3]["obs"].get("zooms")})
    run.assumptions += ["integer-valued data: statistics are compared exactly; f32 narrowing of zoom records is exact in this range",
                        "files holding +infinity (a tenth of the layouts with value 3): records spanning an infinite base are judged on extent and covered bases only, every other record exactly",
                        "automatic zoom ladders are exercised in the thorough tier through scaled embeddings only"]
    return run.finish()


if __name__ == "__main__":
    main_wrap(main)
