"""C05 — the on-disk R-tree finds exactly what a linear scan finds, for every tree shape.
TLC checks RTree.tla exhaustively (pointer exactness, containment, Search = LinearScan) for all
n <= N, b <= B and shapes; the real writer produces each tree (items_per_slot = 1, block_size = b,
main index + zoom index); the independent codec decodes it; TLC validates the decoded image and
the answers of every range query of the real reader."""
import json
from pyverif.core import *
from pyverif import bbi_codec


def project(idx, chrom_shift=1):
    """decoded index -> TLC-friendly tree (offsets relative to the index header)"""
    if idx is None or "error" in idx or not idx.get("nodes"):
        return {"error": 1, "nodes": [], "leaves": [], "itemCount": 0, "blockSize": 0, "startChrom": 0, "startBase": 0, "endChrom": 0, "endBase": 0, "present": 1}
    base = idx["offset"]
    order = sorted({it["dataOffset"] for nd in idx["nodes"] if nd["leaf"] for it in nd["items"]})
    rank = {o: i + 1 for i, o in enumerate(order)}
    nodes = []
    err = 0
    for nd in idx["nodes"]:
        if "error" in nd:
            err = 1
            continue
        items = []
        for it in nd["items"]:
            ptr = rank[it["dataOffset"]] if nd["leaf"] else it["child"] - base
            items.append([it["sc"] + chrom_shift, it["sb"], it["ec"] + chrom_shift, it["eb"], ptr])
        nodes.append({"off": nd["offset"] - base, "leaf": 1 if nd["leaf"] else 0, "items": items})
    leaves = [[it["sc"] + chrom_shift, it["sb"], it["ec"] + chrom_shift, it["eb"], rank[it["dataOffset"]]] for it in idx.get("leaves", [])]
    return {"error": err, "nodes": nodes, "leaves": leaves, "itemCount": idx["itemCount"], "blockSize": idx["blockSize"],
            "startChrom": idx["startChrom"] + chrom_shift, "startBase": idx["startBase"], "endChrom": idx["endChrom"] + chrom_shift,
            "endBase": idx["endBase"], "present": 1}


def main():
    run = Run("C05")
    cfg = "MC_RTree_t.cfg" if run.thorough else "MC_RTree_q.cfg"
    r = tlc("MC_RTree", cfg, os.path.join(run.wd, "mc"), workers=8, timeout=3000, xmx="8g")
    tlc_must_pass(r, "RTree design (pointer exactness, containment, search = scan)")
    run.add_tlc("rtree_design", r)
    beh = r.replays
    if len(beh) < 50:
        raise ToolError("vacuity: %d tree shapes" % len(beh))
    depths = {b["depth"] for b in beh}
    if not {1, 2, 3, 4} <= depths:
        raise ToolError("vacuity: tree depths reached %s" % sorted(depths))
    cases = []
    for k, b in enumerate(beh):
        nchrom = max(s[0] for s in b["secs"])
        L = max(s[2] for s in b["secs"]) + 1
        kind = "bb" if b["shape"] == "nested" else "bw"
        c = {"kind": kind, "chroms": [L] * nchrom, "items": [[s[0], s[1], s[2], 1] for s in b["secs"]],
             "opts": {"ips": 1, "bs": b["b"], "zooms": [1], "zmode": "manual", "compress": k % 2, "inmem": 1, "threads": 1, "rt": "current",
                      "pass": 1 + (k // 2) % 2, "chan": 100},
             "vmap": "int", "allq": 1, "zq": 0, "scale": 1, "asq": "bed3", "mz": [],
             "dump": os.path.join(run.wd, "f%d.bin" % k), "secs": b["secs"], "b": b["b"], "shape": b["shape"], "n": b["n"],
             # every other tree is searched through ONE caching reader (index nodes are cached between queries), half of those in a
             # seeded permutation of the ranges starting with the last chromosome
             "cached": k % 2, "qorder": "shuffle" if k % 4 == 3 else "asc"}
        cases.append(c)
    # the same trees with every position multiplied by the largest power of two that keeps the chromosome below 2^32
    # (coordinates beyond 2^31: span comparisons must be unsigned 32-bit); these copies are only queried
    import math
    for c in list(cases)[::2]:
        L = max(c["chroms"])
        q = dict(c, scale=2 ** int(math.floor(math.log2((2 ** 32 - 1) / L))), qonly=1)
        q.pop("dump", None)
        q["opts"] = dict(c["opts"], zooms=[])
        cases.append(q)
    # a third of the trees once more, searched in "the same file as a big-endian machine would hold it" (the real writer's file re-laid
    # out in the other byte order by the independent codec, same fan-out): index nodes are decoded through the reader's other branch
    for c in [c for c in cases if not c.get("qonly")][1::3]:
        cases.append(dict(c, swap=1, swapdump=1, qonly=1, dump=c["dump"] + ".sw"))
    obs = run_harness("bbi", cases, run.wd, hang_timeout=20)
    from checks.bbi_family import byte_swapped
    byte_swapped(run, obs, 20)
    lines, qlines_bw, qlines_bb, owner_bw, owner_bb = [], [], [], [], []
    for k, o in enumerate(obs):
        o.pop("case", None)
        if o.get("qonly"):
            q = json.dumps({k2: o[k2] for k2 in ("kind", "chroms", "items", "opts", "obs", "asq", "mz", "scale", "vmap")}, separators=(",", ":"))
            (qlines_bw if o["kind"] == "bw" else qlines_bb).append(q)
            (owner_bw if o["kind"] == "bw" else owner_bb).append(k)
            continue
        tree = {"error": 1, "nodes": [], "leaves": [], "itemCount": 0, "blockSize": 0, "startChrom": 0, "startBase": 0, "endChrom": 0, "endBase": 0, "present": 1}
        ztree = dict(tree, present=0)
        zsecs = []
        if o["obs"].get("result") == "ok" and os.path.exists(o["dump"]):
            img = bbi_codec.decode(open(o["dump"], "rb").read())
            tree = project(img.get("index"))
            zs = img.get("zooms") or []
            if zs:
                ztree = project(zs[0].get("index"))
                # the zoom blocks (one record each, items_per_slot = 1) are the sections of the zoom index
                for blk in zs[0].get("blocks", []):
                    its = blk.get("items", [])
                    if its:
                        zsecs.append([its[0][0] + 1, its[0][1], max(i[2] for i in its)])
                if not zsecs:
                    ztree["present"] = 0
            os.remove(o["dump"])
        small = {"secs": o["secs"], "b": o["b"], "obs": {"result": o["obs"].get("result")}, "tree": tree, "ztree": ztree, "zsecs": zsecs}
        lines.append(json.dumps(small, separators=(",", ":")))
        run.count_case(json.dumps([o["n"], o["b"], o["shape"]]), o["n"] > o["b"])
        q = json.dumps({k2: o[k2] for k2 in ("kind", "chroms", "items", "opts", "obs", "asq", "mz")}, separators=(",", ":"))
        if o["kind"] == "bw":
            qlines_bw.append(q); owner_bw.append(k)
        else:
            qlines_bb.append(q); owner_bb.append(k)
    bad = validate_obs("Obs_RTree", "Obs.cfg", lines, run.wd, "tree")
    run.drift += len(validate_obs.last_drift)
    run.cov["traces_validated_against_impl"] += len(lines)
    tree_owner = [k for k, o in enumerate(obs) if not o.get("qonly")]
    for i, tag in bad:
        o = obs[tree_owner[i]]
        run.violation("C05 decoded index of the real file: %s (n=%d b=%d shape=%s)" % (tag, o["n"], o["b"], o["shape"]),
                      {"kind": "bbi", "tag": tag, "case": {k: o[k] for k in o if k != "obs"}})
    bad = validate_obs("Obs_BigWig", "Obs.cfg", qlines_bw, run.wd, "qbw", extra_env={"PROP": "C03"})
    for i, tag in bad:
        o = obs[owner_bw[i]]
        run.violation("C05 range query through the real index: %s (n=%d b=%d shape=%s)" % (tag, o["n"], o["b"], o["shape"]),
                      {"kind": "bbi", "tag": tag, "case": {k: o[k] for k in o if k != "obs"}})
    bad = validate_obs("Obs_BigBed", "Obs.cfg", qlines_bb, run.wd, "qbb", extra_env={"PROP": "C04"})
    for i, tag in bad:
        o = obs[owner_bb[i]]
        run.violation("C05 range query through the real index: %s (n=%d b=%d shape=%s)" % (tag, o["n"], o["b"], o["shape"]),
                      {"kind": "bbi", "tag": tag, "case": {k: o[k] for k in o if k != "obs"}})
    run.cov["tree_depths_reached"] = sorted(depths)
    run.cov["rule"] = ("every (n, b, shape) with n in 1..N blocks, fan-out b in 2..B, shapes {one chromosome with gaps, several chromosomes, "
                       "bigBed-like non-monotone ends}; each written by the real writer (items_per_slot = 1), main and zoom index decoded independently; "
                       "non-trivial = more blocks than the fan-out (multi-level); distinct by (n, b, shape)")
    run.sample(json.loads(lines[len(lines) // 2]))
    run.assumptions += ["the byte layout tables of pyverif/bbi_codec.py (independent decoder) are trusted",
                        "queries: all 0 <= s <= e <= L (bigWig) / 0 <= s < e <= L (bigBed) on every chromosome, which includes every block boundary and one base either side"]
    return run.finish()


if __name__ == "__main__":
    main_wrap(main)
