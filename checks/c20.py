"""C20 — Python-binding array routines (the public `values` call of the real pybigtools extension).
The extension module is built from the repository's working tree (cargo build -p pybigtools against
the tooling venv's python) and imported; MC_Binning draws requests (data set, range incl. out of
bounds, bins, statistic, missing / oob); every returned array is judged by TLC with Binning.tla."""
import json, shutil, subprocess
from pyverif.core import *
from pyverif.image import chrom_name

VENV_PY = "/opt/veriftools/pyvenv/bin/python"


def build_extension():
    repo = ALT_REPO or "/repo"
    target = os.path.join(ROOT, "harness", "target_py" + ("_alt" if ALT_REPO else ""))
    flags = "--cfg bigtools_verif --check-cfg cfg(bigtools_verif)"
    if COV:      # coverage mode (tools/coverage.sh): an instrumented extension in its own target directory
        target = os.path.join(WORK, "cov_target_py")
        flags += " -C instrument-coverage"
    env = dict(os.environ, PYO3_PYTHON=VENV_PY, CARGO_TARGET_DIR=target, CARGO_NET_OFFLINE="true", RUSTFLAGS=flags)
    env.pop("LLVM_PROFILE_FILE", None)
    t0 = time.time()
    p = subprocess.run(["cargo", "build", "-p", "pybigtools", "--offline"], cwd=repo, env=env, stdout=subprocess.PIPE, stderr=subprocess.STDOUT, text=True)
    if p.returncode != 0:
        raise ToolError("pybigtools build failed:\n" + p.stdout[-4000:])
    moddir = os.path.join(WORK, "pymod" + ("_alt" if ALT_REPO else "") + ("_cov" if COV else ""))
    os.makedirs(moddir, exist_ok=True)
    shutil.copyfile(os.path.join(target, "debug", "libpybigtools.so"), os.path.join(moddir, "pybigtools.so"))
    log("[build] pybigtools extension built from %s in %.1fs" % (repo, time.time() - t0))
    return moddir


def hash_of(b):
    import hashlib
    return hashlib.blake2b(json.dumps(b, sort_keys=True).encode(), digest_size=2).digest()[0]




def main():
    run = Run("C20")
    moddir = build_extension()
    num = 4000 if run.thorough else 450
    r = tlc("MC_Binning", "MC_Binning.cfg", os.path.join(run.wd, "sim"), workers=4, timeout=3000, simulate=num, depth=20, seed=run.seed, xmx="4g")
    tlc_must_pass(r, "MC_Binning")
    run.add_tlc("simulate_values_requests", r)
    seen, beh = set(), []
    for b in r.replays:
        k = json.dumps(b, sort_keys=True)
        if k not in seen:
            seen.add(k); beh.append(b)
    if len(beh) < 500:
        raise ToolError("vacuity: %d requests" % len(beh))
    # the data files: written by the real writers through the harness
    files = {}
    wc = []
    for b in beh:
        key = (b["kind"], b["ds"])
        if key in files:
            continue
        files[key] = os.path.join(run.wd, "%s%d.%s" % (b["kind"], b["ds"], "bw" if b["kind"] == "bw" else "bb"))
        items = [[1, it[0], it[1], it[2]] for it in b["items"]]
        wc.append({"kind": b["kind"], "chroms": [b["len"]], "items": items, "vmap": "int", "scale": 1, "allq": 0, "zq": 0, "mz": [], "asq": "bed3", "long": 0,
                   "opts": {"ips": 2, "bs": 2, "zooms": [2], "zmode": "manual", "compress": 1, "inmem": 1, "rt": "current", "threads": 1, "pass": 1, "chan": 100},
                   "dump": files[key]})
    for o in run_harness("bbi", wc, run.wd, shards=1):
        if o["obs"].get("result") != "ok":
            raise ToolError("cannot prepare the data file for C20: %s" % o["obs"])
    inp = os.path.join(run.wd, "py_in.ndjson")
    outp = os.path.join(run.wd, "py_out.ndjson")
    with open(inp, "w") as f:
        for b in beh:
            f.write(json.dumps(dict(b, path=files[(b["kind"], b["ds"])], chrom=chrom_name(1), flaky=1 if hash_of(b) % 8 == 0 else 0)) + "\n")
    # the driver may die on an abort inside the extension: restart after the offending request
    obs, pos = [], 0
    lines_in = open(inp).read().splitlines()
    attempts = 0
    while pos < len(lines_in) and attempts < 30:
        attempts += 1
        open(inp + ".part", "w").write("\n".join(lines_in[pos:]) + "\n")
        try:
            p = subprocess.run([VENV_PY, os.path.join(ROOT, "pyverif", "py_driver.py"), moddir, inp + ".part", outp], timeout=900,
                               stdout=subprocess.PIPE, stderr=subprocess.PIPE)
        except subprocess.TimeoutExpired:
            p = None
        got = [json.loads(l) for l in open(outp).read().splitlines() if l.strip()] if os.path.exists(outp) else []
        obs += got
        pos += len(got)
        if pos < len(lines_in) and (p is None or p.returncode != 0):
            c = json.loads(lines_in[pos])
            c["obs"] = {"result": "hang" if p is None else "abort", "out": [], "err": (p.stderr.decode(errors="replace")[-200:] if p else "")}
            obs.append(c)
            pos += 1
    if pos < len(lines_in):
        raise ToolError("python driver kept dying")
    # requests flagged "flaky" were repeated through a file-like object failing at every read() made during the call: one observation each
    extra = []
    for o in obs:
        fk = o["obs"].pop("flaky", None) if isinstance(o.get("obs"), dict) else None
        if fk:
            for ft in fk["faults"]:
                extra.append(dict({k: v for k, v in o.items() if k != "obs"}, fault=1, fault_at=ft["n"], arr=0,
                                  obs={"result": ft["result"], "out": ft["out"], "err": ft.get("err", "")}))
    run.cov["requests_repeated_with_a_failing_reader"] = len(extra)
    run.cov["failing_reader_outcomes"] = {"exception": sum(1 for o in extra if o["obs"]["result"] == "exception"), "array_returned": sum(1 for o in extra if o["obs"]["result"] == "ok")}
    obs += extra
    lines = []
    for o in obs:
        o.pop("path", None)
        lines.append(json.dumps(o, separators=(",", ":")))
        nt = o["bins"] > 0 or o["s"] < 0 or o["e"] > o["len"]
        run.count_case(json.dumps({k: o[k] for k in o if k != "obs"}, sort_keys=True), nt)
    bad = validate_obs("Obs_Binning", "Obs.cfg", lines, run.wd, "obs", shards=4)
    run.cov["traces_validated_against_impl"] += len(obs)
    tags = {}
    for i, tag in bad:
        tags[tag] = tags.get(tag, 0) + 1
        o = obs[i]
        rep = {"kind": "values", "tag": tag, "case": {k: o[k] for k in o if k != "obs"}, "obs": o["obs"]}
        kf = classify(o, tag)
        if kf:
            rep["known"] = kf
        run.violation("C20 %s: %s -> %s" % (tag, json.dumps({k: o[k] for k in o if k not in ("obs", "chrom")}), json.dumps(o["obs"])[:240]), rep)
    if tags:
        log("[C20] failing observations by tag: %s" % tags)
    run.cov["rule"] = ("requests drawn by random walks of MC_Binning: file type x 3 data sets (gaps, overlapping / nested / zero-length entries) x ranges from -2 to 2 past the chromosome end x "
                       "bins none / 1..(e-s) x mean/min/max x missing and oob in {0, -1, 5, NaN}; executed by the public values() of the real extension module; "
                       "non-trivial = binned or out-of-bounds request; distinct by request")
    run.sample(obs[0]); run.sample(obs[len(obs) // 2])
    run.assumptions += ["exact equality where the bin width is integral; for other widths only NaN-freedom and the data-range clause of the statement",
                        "a bin straddling the chromosome end may be the out-of-bounds value or the statistic of its inside part (the statement is silent)"]
    return run.finish()


def classify(o, tag):
    return None


if __name__ == "__main__":
    main_wrap(main)
