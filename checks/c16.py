"""C16 — command-line conversions round-trip records for any thread count and flag style."""
from checks.cli_family import *

main = c16_main

if __name__ == "__main__":
    main_wrap(main)
