"""Shared pipeline of the write/read family (C01 C02 C03 C04 C06 C07 C08):
TLC enumerates layouts and checks mechanism => abstract; every layout is written by the real
writer and read back by the real readers; TLC judges each observation with the abstract predicate."""
import json, random
from pyverif.core import *

FREE = {  # dimensions that must NOT influence the result; paired pseudo-randomly (plumbing)
    "compress": [1, 0], "inmem": [1, 0], "rtth": [("current", 1), ("multi", 2), ("multi", 6)],
    "pass": [1, 2], "chan": [0, 1, 100], "bs": [2, 3],
}


def free_opts(rng, k):
    # cycle deterministically through values with co-prime strides, plus a little randomness: every
    # pair of values co-occurs after a few dozen cases
    o = {}
    o["compress"] = FREE["compress"][k % 2]
    o["inmem"] = FREE["inmem"][(k // 2) % 2]
    rt, th = FREE["rtth"][(k // 4) % 3]
    o["rt"], o["threads"] = rt, th
    o["pass"] = FREE["pass"][(k // 12) % 2] if rng.random() < 0.8 else rng.choice(FREE["pass"])
    o["chan"] = FREE["chan"][(k // 3) % 3]
    o["bs"] = FREE["bs"][(k // 5) % 2]
    return o


def make_cases(beh, kind, sizes_of, run, allq=0, zq=0, vmap="int", extra=None, k0=0):
    rng = random.Random(run.seed + k0)
    cases = []
    for k, b in enumerate(beh, k0):
        o = free_opts(rng, k + run.seed)
        o["ips"] = b["ips"]
        o["zooms"] = b["zooms"]
        o["zmode"] = "manual"
        o["sort"] = b.get("sort", "all")
        c = {"kind": kind, "chroms": sizes_of(b), "items": b["items"], "opts": o, "vmap": vmap, "allq": allq, "zq": zq,
             "mz": b.get("mz", []), "msum": b.get("msum", {"bases": 0, "sum": 0, "sumsq": 0, "min": 0, "max": 0, "int": 1}), "scale": 1, "asq": "bed3", "long": 0}
        if vmap == "int" and k % 6 == 4:
            # a sixth of the files get their items through a text file and the real line reader / parser (bedGraph / BED text):
            # LF or CRLF line ends, last line terminated or not
            c["src"], c["eol"], c["final_nl"] = "text", ["lf", "crlf"][(k // 6) % 2], (k // 12) % 2
        if k % (100 if run.thorough else 25) == 9 and o["sort"] == "all":
            # read back from "the same file as a big-endian machine would hold it" (see judge).  Only for inputs in chromosome-name order:
            # the re-laid-out chromosome tree is key-sorted, which changes the order of the table (not a property) when the writer's is not
            c["swap"] = 1
        if extra:
            c.update(extra(b, k, rng))
        cases.append(c)
    return cases


def byte_swapped(run, obs, hang_timeout):
    """cases flagged "swap": the file the real writer produced is re-laid out in the OTHER byte order by the independent codec (same
    records, summary, zoom records, index fan-out: `bbi_codec.relayout`), and everything the check asks of the file is asked of that
    one, through the same real readers; the answers replace the original ones and are judged by the same formulas"""
    from pyverif import bbi_codec
    todo = []
    for i, o in enumerate(obs):
        if not o.get("swap"):
            continue
        path = o.get("dump")
        if o["obs"].get("result") == "ok" and path and os.path.exists(path):
            try:
                img = bbi_codec.decode(open(path, "rb").read(), bits=True)
                if not img.get("error") and img.get("chromTree") and img.get("index"):
                    spath = path + ".big"
                    open(spath, "wb").write(bbi_codec.encode(bbi_codec.relayout(img, "big" if img["endian"] == "little" else "little")))
                    todo.append((i, dict({k: v for k, v in o.items() if k not in ("obs", "dump", "case")}, path=spath)))
            except Exception:      # a file the independent decoder cannot follow is C09's business, not a reason to stop here
                pass
        if o.pop("swapdump", None) and path:
            try:
                os.remove(path)
            except OSError:
                pass
            o.pop("dump", None)
    if not todo:
        return
    res = run_harness("readfile", [c for _, c in todo], os.path.join(run.wd, "swapped"), hang_timeout=hang_timeout)
    for (i, c), r in zip(todo, res):
        obs[i]["obs"] = r["obs"]
        obs[i]["swapped"] = 1
        try:
            os.remove(c["path"])
        except OSError:
            pass
    run.cov["files_read_back_in_the_other_byte_order"] = run.cov.get("files_read_back_in_the_other_byte_order", 0) + len(todo)


def judge(run, pid, module, cases, nontrivial, describe, hang_timeout=20, known_tags=None, chunk=200000):
    """Executes the cases on the real code and lets TLC judge every observation.  Large case lists are
    processed in chunks (memory); the returned list holds every observation of the first chunk and, of
    the later ones, only the automatic-zoom / long behaviours the callers look at."""
    kept = []
    tags = {}
    for lo in range(0, max(len(cases), 1), chunk):
        part = cases[lo:lo + chunk]
        if not part:
            break
        for i, c in enumerate(part):
            if c.get("swap") and not c.get("dump"):
                c["dump"] = os.path.join(run.wd, "sw_%d_%d.bin" % (lo, i))
                c["swapdump"] = 1
        obs = run_harness("bbi", part, run.wd, hang_timeout=hang_timeout)
        byte_swapped(run, obs, hang_timeout)
        if SWEEP:
            with open(os.path.join(WORK, "notok_%s.ndjson" % pid), "a") as f:
                for o in obs:
                    if o["obs"].get("result") != "ok":
                        f.write(json.dumps(o)[:4000] + "\n")
            run.cov["traces_validated_against_impl"] += len(obs)
            del obs
            continue
        lines = []
        for o in obs:
            o.pop("case", None)
            lines.append(json.dumps(o, separators=(",", ":")))
            run.count_case(json.dumps([o["items"], o["opts"]["ips"], o["opts"]["zooms"], o.get("scale", 1)]), nontrivial(o))
        bad = validate_obs(module, "Obs.cfg", lines, run.wd, "obs", extra_env={"PROP": pid})
        del lines
        run.drift += len(validate_obs.last_drift)
        run.cov["traces_validated_against_impl"] += len(obs)
        for i, tag in bad:
            tags[tag] = tags.get(tag, 0) + 1
        for i, tag in bad:
            o = obs[i]
            rep = {"kind": "bbi", "tag": tag, "case": {k: (o[k] if not (o.get("long") and k == "items") else "generated: [1, 2i, 2i+1, 1+i%3] for i < 70000") for k in o if k != "obs"}, "obs": describe(o)}
            if tag.startswith("known:"):
                rep["known"] = tag.split(":", 1)[1]
            run.violation("%s: %s on input %s opts %s" % (pid, tag, json.dumps(o["items"])[:400], json.dumps(o["opts"])), rep)
        kept += obs if lo == 0 else [o for o in obs if o.get("long") or o["opts"].get("zmode") == "auto"]
        del obs
    if tags:
        run.cov.setdefault("bad_tags", {}).update(tags)
        log("[%s] failing observations by tag: %s" % (pid, tags))
    return kept


def emit_sim(run, module, cfg, num, depth=40):
    """random walks (tlc -simulate) for layouts deeper than the exhaustive bounds"""
    r = tlc(module, cfg, os.path.join(run.wd, "sim_" + cfg.replace(".cfg", "")), workers=4, timeout=3000, xmx="4g",
            simulate=num, depth=depth, seed=run.seed)
    tlc_must_pass(r, "%s/%s (simulation)" % (module, cfg))
    run.add_tlc("simulate_" + cfg.replace(".cfg", ""), r)
    seen, out = set(), []
    for b in r.replays:
        k = json.dumps(b, sort_keys=True)
        if k not in seen:
            seen.add(k)
            out.append(b)
    return out


def each_batch(run, module, cfgs, size=400000, sims=()):
    """behaviours of the exhaustive configurations one configuration and one slice at a time (memory),
    then the simulated ones: yields (slice, index of its first behaviour)"""
    k0 = 0
    for cfg in cfgs:
        beh = emit(run, module, [cfg], min_behaviours=1)
        for lo in range(0, len(beh), size):
            yield beh[lo:lo + size], k0 + lo
        k0 += len(beh)
        del beh
    for cfg, num in sims:
        beh = emit_sim(run, module, cfg, num)
        yield beh, k0
        k0 += len(beh)
    if k0 < 50:
        raise ToolError("vacuity: only %d behaviours emitted by %s" % (k0, module))


def run_batches(run, pid, mc, cfgs, obsmod, nt, desc, build, sims=(), size=300000, keep=2000):
    """the write/read family one configuration and one slice at a time: build(beh, k0) -> cases; every case is
    executed and judged; returns a small sample of the observations (plus every long / automatic-zoom one)"""
    kept = []
    for beh, k0 in each_batch(run, mc, cfgs, size=size, sims=sims):
        got = judge(run, pid, obsmod, build(beh, k0), nt, desc)
        if len(kept) < keep:
            kept += got[:keep]
        else:
            kept += [o for o in got if o.get("long") or o["opts"].get("zmode") == "auto"]
        del got, beh
    return kept


def emit(run, module, cfgs, min_behaviours=50):
    beh = []
    for cfg in cfgs:
        r = tlc(module, cfg, os.path.join(run.wd, "mc_" + cfg.replace(".cfg", "")), workers=6, timeout=3000, xmx="8g")
        tlc_must_pass(r, "%s/%s (mechanism => abstract)" % (module, cfg))
        run.add_tlc(cfg.replace(".cfg", ""), r)
        beh += r.replays
    if len(beh) < min_behaviours:
        raise ToolError("vacuity: only %d behaviours emitted by %s" % (len(beh), module))
    return beh
