"""C11 — output bytes do not depend on threads, buffering or task timing.
(1) Pipeline.tla: every interleaving of source / encode tasks / write_data / file owner with one
    TempFileBuffer per chromosome satisfies Deterministic, is never stuck and terminates;
(2) the real writers produce each (input, format options) under a reference configuration and many others
    (threads 1..16, runtime flavour, channel 0/1/100, in-memory/temp-file staging, iterator/file/parallel
    source) with seeded and role-biased delays injected at the hook points; (3) the multi-threaded
    converters are compared with their single-threaded output.  TLC judges that all digests agree.
(4) implementation -> spec: the hook events of traced runs are validated against Pipeline.tla (Trace_Pipeline);
(5) the same for the executions of the repository's OWN tests (run with the hook guard on and BIGTOOLS_VERIF_TRACE)."""
import json, random, hashlib
from concurrent.futures import ThreadPoolExecutor
from pyverif.core import *
from checks import cli_family as cf


def instances(trace):
    """Cut the hook events of one writer run into pipeline instances: the staging buffers ONE file token
    passes through in chromosome order (the data lanes of a pass, or the lanes of one zoom level).
    Structural only: buffer ids are tied to (pass, lane position, chromosome rank) by the order of the
    source thread's `pipe.chrom.setup` / `pipe.lane.new` events."""
    lane, order, evs = {}, {}, {}
    phase, seen, r, flag_prev = 0, set(), 0, None
    for name, a, b in trace:
        if name == "pipe.chrom.setup":
            if a in seen or (flag_prev is not None and b != flag_prev):
                phase += 1
                seen = set()
            seen.add(a)
            flag_prev = b
            r = 0
        elif name == "pipe.lane.new":
            key = (phase, r)
            r += 1
            k = order.get(key, 0) + 1
            order[key] = k
            lane[a] = (key, k)
            evs.setdefault(key, []).append({"ev": "setup", "k": k, "st": 0})
        elif name.startswith("tfb.") and a in lane:
            key, k = lane[a]
            ev = {"tfb.switch": "switch", "tfb.update": "update", "tfb.drop": "drop", "tfb.await.taken": "taken"}.get(name)
            if ev:
                evs[key].append({"ev": ev, "k": k, "st": b if ev == "update" else 0})
    out = []
    for key in sorted(evs):
        n = order[key]
        secs = [sum(1 for e in evs[key] if e["ev"] == "update" and e["k"] == k) for k in range(1, n + 1)]
        out.append({"key": list(key), "secs": secs, "events": evs[key]})
    return out


def validate_pipeline_traces(run, traced, label="pipeline_trace_validation", min_lanes=20, min_multi=3):
    """implementation -> spec: every pipeline instance of every traced run is validated against Pipeline.tla
    by Trace_Pipeline (one TLC run per instance: the constants come from the trace header)."""
    jobs = []
    for ri, (desc, trace) in enumerate(traced):
        for ii, inst in enumerate(instances(trace)):
            path = os.path.join(run.wd, "%s_%d_%d.ndjson" % (label[:4], ri, ii))
            with open(path, "w") as f:
                f.write(json.dumps({"secs": inst["secs"], "ev": "header", "k": 0, "st": 0}) + "\n")
                for e in inst["events"]:
                    f.write(json.dumps(e) + "\n")
            jobs.append((ri, ii, path, inst, desc))

    def one(j):
        ri, ii, path, inst, desc = j
        for attempt in range(3):
            r = tlc("Trace_Pipeline", "Trace_Pipeline.cfg", os.path.join(run.wd, "tlc_%s_%d_%d_%d" % (label[:4], ri, ii, attempt)), env={"TRACE": path}, workers=1, timeout=600,
                    xmx="1g", dfs=True, collect_replays=False)
            # a JVM that could not start or was starved (many validators run side by side) gives no verdict at all: try again
            if r.violation or any(x.startswith('<<"ACCEPTED"') or x.startswith('<<"REJECTED"') for x in r.prints):
                break
            log("[trace validation] no verdict from TLC (attempt %d) on %s: %s" % (attempt + 1, os.path.basename(path), " | ".join(r.out.splitlines()[-4:])[:300]))
            time.sleep(1 + attempt)
        return j, r
    with ThreadPoolExecutor(max_workers=max(2, NCPU // 2)) as ex:
        res = list(ex.map(one, jobs))
    # a validator that gave no verdict while many ran side by side (a starved JVM) is run once more on its own, with a longer limit
    def _verdict(r):
        return bool(r.violation) or any(x.startswith('<<"ACCEPTED"') or x.startswith('<<"REJECTED"') for x in r.prints)
    res = [(j, r) if _verdict(r) else one(j) for j, r in res]
    acc, rej, states = 0, [], 0
    lanes, writes, multi = 0, 0, 0
    for (ri, ii, path, inst, desc), r in res:
        states += r.generated
        lanes += len(inst["secs"])
        writes += sum(inst["secs"])
        multi += sum(1 for x in inst["secs"] if x >= 2)
        if r.violation and ("Invariant" in r.violation or "violated" in r.violation):
            run.violation("C11: an invariant of Pipeline.tla (Deterministic / NoStuck / EndOK) is violated on an OBSERVED schedule of the real pipeline: %s instance %s" % (json.dumps(desc), inst["key"]),
                          {"kind": "pipeline-trace", "config": desc, "instance": inst, "tlc": r.violation[:1500]})
            continue
        if any(x.startswith('<<"ACCEPTED"') for x in r.prints):
            acc += 1
        elif any(x.startswith('<<"REJECTED"') for x in r.prints):
            h = int([x for x in r.prints if x.startswith('<<"REJECTED"')][0].split(",")[1].strip(" >"))
            rej.append({"config": desc, "instance": inst["key"], "secs": inst["secs"], "matched_events": max(0, h - 2), "next_event": inst["events"][h - 2] if 0 <= h - 2 < len(inst["events"]) else None})
        else:
            raise ToolError("pipeline trace validation gave no verdict:\n" + r.out[-2000:])
    run.cov[label] = {"runs_traced": len(traced), "instances_validated": len(jobs), "accepted": acc, "rejected": len(rej), "lanes": lanes,
                                            "buffer_writes": writes, "lanes_with_2plus_writes": multi, "tlc_states": states, "rejections": rej[:5]}
    run.cov["states"] += states
    run.cov["traces_validated_against_impl"] += acc
    if not jobs or lanes < min_lanes or multi < min_multi:
        raise ToolError("vacuity: %s too thin (%d instances, %d lanes, %d lanes with >= 2 writes)" % (label, len(jobs), lanes, multi))
    # a schedule the model does not explain is model drift (the bytes are judged separately), not a violation of C11
    run.drift += len(rej)
    for x in rej[:3]:
        log("[C11] MODEL-DRIFT detail: observed schedule not explained by Pipeline.tla: %s" % json.dumps(x)[:400])


def configs(rng, n, pass_):
    out = [{"threads": 1, "rt": "current", "chan": 0, "inmem": 1, "source": "iter", "pass": pass_, "seed": 0, "slow": "none"}]
    for i in range(n):
        th = rng.choice([1, 2, 3, 4, 6, 8, 16])
        out.append({"threads": th, "rt": "current" if th == 1 and rng.random() < 0.5 else "multi", "chan": rng.choice([0, 1, 100]), "inmem": rng.choice([0, 0, 1]),
                    "source": rng.choice(["iter", "file", "parallel", "parallel"]), "pass": pass_, "seed": rng.randint(1, 10 ** 6),
                    "slow": rng.choice(["none", "owner", "writer", "drop", "none"])})
    return out


def repo_tests_part(run):
    """The repository's OWN test-suite as a source of traces: it is run with the hook guard on and
    BIGTOOLS_VERIF_TRACE set (one test at a time), and every pipeline instance its writers executed is
    validated against Pipeline.tla like the harness runs."""
    import subprocess
    repo = ALT_REPO or "/repo"
    target = os.path.join(WORK, "repo_tests" + ("_alt" if ALT_REPO else ""), "target")
    tr = os.path.join(run.wd, "repo_trace.txt")
    env = dict(os.environ, BIGTOOLS_VERIF_TRACE=tr, RUSTFLAGS="--cfg bigtools_verif --check-cfg cfg(bigtools_verif)", CARGO_TARGET_DIR=target, CARGO_NET_OFFLINE="true")
    env.pop("LLVM_PROFILE_FILE", None)
    t0 = time.time()
    try:
        p = subprocess.run(["cargo", "test", "-p", "bigtools", "--offline", "--", "--test-threads", "1"], cwd=repo, env=env, stdout=subprocess.PIPE, stderr=subprocess.STDOUT, text=True, timeout=2400)
    except subprocess.TimeoutExpired:
        raise ToolError("the repository's tests did not finish (hook guard on)")
    if p.returncode != 0:
        raise ToolError("the repository's tests fail with the hook guard on:\n" + p.stdout[-2500:])
    passed = sum(int(m) for m in re.findall(r"test result: ok\. (\d+) passed", p.stdout))
    per = {}
    for line in open(tr):
        f = line.split()
        if len(f) == 4:
            per.setdefault(f[3], []).append([f[0], int(f[1]), int(f[2])])
    traced = [({"source": "repository test process", "pid_rank": k}, evs) for k, (pid, evs) in enumerate(sorted(per.items(), key=lambda kv: int(kv[0])))
              if any(e[0] == "pipe.lane.new" for e in evs)]
    run.cov["repository_tests_run_with_hooks"] = {"tests_passed": passed, "processes_with_pipeline_events": len(traced), "hook_events": sum(len(v) for v in per.values()),
                                                   "wall_s": round(time.time() - t0, 1)}
    validate_pipeline_traces(run, traced, label="repository_tests_trace_validation", min_lanes=10, min_multi=0)


def main():
    run = Run("C11")
    for c in ("a", "b", "c", "d"):
        r = tlc("MC_Pipeline", "Pipeline_%s.cfg" % c, os.path.join(run.wd, "pipe_" + c), workers=8, timeout=1800, deadlock_off=True, xmx="6g")
        tlc_must_pass(r, "Pipeline.tla Deterministic / NoStuck / Terminates (%s)" % c)
        run.add_tlc("pipeline_" + c, r)
    rng = random.Random(run.seed)
    cases = []
    nlay = 24 if run.thorough else 8
    ncfg = 24 if run.thorough else 9
    for k in range(nlay):
        kind = "bw" if k % 2 == 0 else "bb"
        perchrom = [rng.choice([1, 40, 900, 2500]) for _ in range(rng.choice([2, 3, 4, 6]))]
        if k % 3 == 0:
            perchrom[1 % len(perchrom)] = 3000          # a later chromosome whose encoded data exceeds the 8 KiB BufWriter
        c = {"kind": kind, "perchrom": perchrom, "ips": rng.choice([64, 256, 1024]), "bs": rng.choice([4, 256]), "compress": k % 4 != 1,
             "zooms": rng.choice([None, [10, 40], []]), "configs": configs(rng, ncfg, 1 + k % 2)}
        c["compress"] = 1 if c["compress"] else 0
        cases.append(c)
    # many chromosomes, long ones followed by tiny contigs: more chromosomes than the parallel source keeps in flight (5),
    # later ones finishing long before the front one
    for k in range(4 if run.thorough else 2):
        perchrom = [(6000 if i % 4 == 0 else 3) for i in range(rng.choice([9, 13, 21]))]
        cases.append({"kind": "bw" if k % 2 == 0 else "bb", "perchrom": perchrom, "ips": 256, "bs": 256, "compress": 1, "zooms": None if k % 2 else [10, 40],
                      "configs": [dict(c_, source=("iter" if j == 0 else "parallel"), threads=(1 if j == 0 else rng.choice([2, 4, 8])), rt=("current" if j == 0 else "multi"))
                                  for j, c_ in enumerate(configs(rng, ncfg, 1 + k % 2))]})
    # runs whose hook events are recorded and validated against Pipeline.tla: uncompressed, larger chromosomes (several
    # buffer writes per lane), both staging kinds, both pass modes, all sources
    ntr = len(cases)
    for k in range(6 if run.thorough else 3):
        kind = "bw" if k % 2 == 0 else "bb"
        perchrom = [rng.choice([30, 1500, 4000, 9000]) for _ in range(rng.choice([2, 3, 4]))]
        perchrom[rng.randrange(len(perchrom))] = 9000
        cfgs = configs(rng, 8 if run.thorough else 4, 1 + k % 2)
        for c_ in cfgs:
            c_["trace"] = 1
        cases.append({"kind": kind, "perchrom": perchrom, "ips": rng.choice([64, 256]), "bs": 256, "compress": 0, "zooms": [None, [10, 40], []][k % 3], "configs": cfgs})
    obs = run_harness("det", cases, run.wd, hang_timeout=120, shards=4)
    traced = []
    for o in obs:
        for c_, r_ in zip(o["configs"], o["obs"].get("runs", [])):
            if "trace" in r_:
                if r_["ok"]:
                    traced.append(({"kind": o["kind"], "perchrom": o["perchrom"], "ips": o["ips"], "zooms": o["zooms"], "cfg": c_}, r_.pop("trace")))
                else:
                    r_.pop("trace")
    validate_pipeline_traces(run, traced)
    repo_tests_part(run)
    lines, classes = [], {}
    nruns = 0
    for o in obs:
        o.pop("case", None)
        for r_ in o["obs"].get("runs", []):
            nruns += 1
            for cl, n in r_.get("classes", {}).items():
                classes[cl] = classes.get(cl, 0) + n
        slim = {"obs": {"result": o["obs"].get("result"), "runs": [{"ok": r_["ok"], "digest": r_["digest"]} for r_ in o["obs"].get("runs", [])]}}
        lines.append(json.dumps(slim, separators=(",", ":")))
        run.count_case(json.dumps([o["kind"], o["perchrom"], o["ips"], o["zooms"], o["compress"]]), len(o["perchrom"]) >= 2)
    run.cov["writer_runs_compared"] = nruns
    run.cov["interleaving_classes_reached"] = classes
    need = {"switch-before-first-write", "switch-between-writes", "switch-after-drop"}
    if not need <= set(classes):
        raise ToolError("vacuity: interleaving classes reached %s (need %s)" % (sorted(classes), sorted(need)))
    # converters
    tdir = cf.tools_dir()
    d = os.path.join(run.wd, "files")
    os.makedirs(d, exist_ok=True)
    conv = []
    back_traced = []
    for k in range(6 if run.thorough else 2):
        for kind in ("bw", "bb"):
            items = cf.text_items(kind, [3, 4, 2, 4, 3, 2][k % 6])      # 4: infinities, NaN, -0 among the values
            inp, sizes, _ = cf.write_inputs(d, kind, items, "cv%d%s" % (k, kind))
            big = os.path.join(d, "cv%d.%s" % (k, kind))
            rc, _, err = cf.run_tool(tdir, "own", "bedgraphtobigwig" if kind == "bw" else "bedtobigbed", [inp, sizes, big, "-t", "2"])
            runs = []
            for j, (th, inm, seed) in enumerate([(1, 0, 0)] + [(rng.choice([2, 3, 4, 8, 16]), rng.randint(0, 1), rng.randint(1, 10 ** 6)) for _ in range(8 if run.thorough else 4)]):
                out = os.path.join(d, "cv%d_%s_%d.txt" % (k, kind, j))
                env_before = os.environ.get("BIGTOOLS_VERIF_DELAY_SEED")
                args = [big, out, "-t", str(th)] + (["--inmemory"] if inm else [])
                if seed:
                    os.environ["BIGTOOLS_VERIF_DELAY_SEED"] = str(seed)
                trf = os.path.join(d, "cvtr%d_%s_%d.txt" % (k, kind, j)) if th > 1 else None
                rc2, _, err2 = cf.run_tool(tdir, "own", "bigwigtobedgraph" if kind == "bw" else "bigbedtobed", args, trace=trf)
                os.environ.pop("BIGTOOLS_VERIF_DELAY_SEED", None)
                if trf:
                    # the multi-threaded back-converter is the same lane pipeline (one staging buffer per chromosome, the output file
                    # handed from lane to lane in order): its recorded hook events are validated against Pipeline.tla as well
                    evs = []
                    cf.path_events(trf, evs)
                    if evs:
                        back_traced.append(({"source": "back-converter", "kind": kind, "threads": th, "inmem": inm, "seed": seed}, evs))
                data = open(out, "rb").read() if os.path.exists(out) else b""
                runs.append({"ok": 1 if (rc == 0 and rc2 == 0) else 0, "digest": hashlib.sha256(data).hexdigest()[:24] + ":%d" % len(data)})
            conv.append({"obs": {"result": "ok", "runs": runs}})
            lines.append(json.dumps(conv[-1], separators=(",", ":")))
            run.count_case("converter %s %d" % (kind, k), True)
    validate_pipeline_traces(run, back_traced, label="back_converter_trace_validation", min_lanes=20, min_multi=1)
    allobs = obs + conv
    bad = validate_obs("Obs_Det", "Obs.cfg", lines, run.wd, "obs", shards=1)
    run.cov["traces_validated_against_impl"] += len(allobs)
    for i, tag in bad:
        o = allobs[i]
        if "kind" in o:
            detail = [{"cfg": c, "digest": r_["digest"], "ok": r_["ok"], "err": r_.get("err", "")[:80]} for c, r_ in zip(o["configs"], o["obs"].get("runs", []))]
            run.violation("C11 %s: kind=%s perchrom=%s ips=%s zooms=%s: %s" % (tag, o["kind"], o["perchrom"], o["ips"], o["zooms"], json.dumps(detail)[:400]),
                          {"kind": "det", "tag": tag, "case": {k: o[k] for k in o if k != "obs"}, "runs": detail})
        else:
            run.violation("C11 %s: multi-threaded converter output differs from -t 1: %s" % (tag, json.dumps(o)[:300]), {"kind": "conv", "tag": tag, "obs": o})
    run.cov["rule"] = ("seeded inputs (2..6 chromosomes, 1..3000 items each, several sections per chromosome) x format options; each written under a reference configuration and "
                       "N others (threads, runtime, channel, staging, source) with seeded + role-biased delays at the hook points; converters -t N vs -t 1; "
                       "non-trivial = at least 2 chromosomes; distinct by (kind, sizes, options)")
    run.sample({"case": {k: obs[0][k] for k in ("kind", "perchrom", "ips", "zooms")}, "configs": obs[0]["configs"][:3], "digests": [r_["digest"] for r_ in obs[0]["obs"].get("runs", [])][:3]})
    run.assumptions += ["real tokio schedules are biased by seeded delays, not enumerated: the exhaustive claim is on Pipeline.tla; the code claim is that every observed run produced identical bytes",
                        "single-pass and two-pass writing select zoom levels differently (a format option): runs are compared within one pass mode"]
    return run.finish()


if __name__ == "__main__":
    main_wrap(main)
