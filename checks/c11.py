"""C11 — output bytes do not depend on threads, buffering or task timing.
(1) Pipeline.tla: every interleaving of source / encode tasks / write_data / file owner with one
    TempFileBuffer per chromosome satisfies Deterministic, is never stuck and terminates;
(2) the real writers produce each (input, format options) under a reference configuration and many others
    (threads 1..16, runtime flavour, channel 0/1/100, in-memory/temp-file staging, iterator/file/parallel
    source) with seeded and role-biased delays injected at the hook points; (3) the multi-threaded
    converters are compared with their single-threaded output.  TLC judges that all digests agree."""
import json, random, hashlib
from pyverif.core import *
from checks import cli_family as cf


def configs(rng, n, pass_):
    out = [{"threads": 1, "rt": "current", "chan": 0, "inmem": 1, "source": "iter", "pass": pass_, "seed": 0, "slow": "none"}]
    for i in range(n):
        th = rng.choice([1, 2, 3, 4, 6, 8, 16])
        out.append({"threads": th, "rt": "current" if th == 1 and rng.random() < 0.5 else "multi", "chan": rng.choice([0, 1, 100]), "inmem": rng.choice([0, 0, 1]),
                    "source": rng.choice(["iter", "file", "parallel", "parallel"]), "pass": pass_, "seed": rng.randint(1, 10 ** 6),
                    "slow": rng.choice(["none", "owner", "writer", "drop", "none"])})
    return out


def main():
    run = Run("C11")
    for c in ("a", "b", "c"):
        r = tlc("Pipeline", "Pipeline_%s.cfg" % c, os.path.join(run.wd, "pipe_" + c), workers=8, timeout=1800, deadlock_off=True, xmx="6g")
        tlc_must_pass(r, "Pipeline.tla Deterministic / NoStuck / Terminates (%s)" % c)
        run.add_tlc("pipeline_" + c, r)
    rng = random.Random(run.seed)
    cases = []
    nlay = 24 if run.thorough else 8
    ncfg = 24 if run.thorough else 9
    for k in range(nlay):
        kind = "bw" if k % 2 == 0 else "bb"
        perchrom = [rng.choice([1, 40, 900, 2500]) for _ in range(rng.choice([2, 3, 4, 6]))]
        if k % 3 == 0:
            perchrom[1 % len(perchrom)] = 3000          # a later chromosome whose encoded data exceeds the 8 KiB BufWriter
        c = {"kind": kind, "perchrom": perchrom, "ips": rng.choice([64, 256, 1024]), "bs": rng.choice([4, 256]), "compress": k % 4 != 1,
             "zooms": rng.choice([None, [10, 40], []]), "configs": configs(rng, ncfg, 1 + k % 2)}
        c["compress"] = 1 if c["compress"] else 0
        cases.append(c)
    # many chromosomes, long ones followed by tiny contigs: more chromosomes than the parallel source keeps in flight (5),
    # later ones finishing long before the front one
    for k in range(4 if run.thorough else 2):
        perchrom = [(6000 if i % 4 == 0 else 3) for i in range(rng.choice([9, 13, 21]))]
        cases.append({"kind": "bw" if k % 2 == 0 else "bb", "perchrom": perchrom, "ips": 256, "bs": 256, "compress": 1, "zooms": None if k % 2 else [10, 40],
                      "configs": [dict(c_, source=("iter" if j == 0 else "parallel"), threads=(1 if j == 0 else rng.choice([2, 4, 8])), rt=("current" if j == 0 else "multi"))
                                  for j, c_ in enumerate(configs(rng, ncfg, 1 + k % 2))]})
    obs = run_harness("det", cases, run.wd, hang_timeout=120, shards=4)
    lines, classes = [], {}
    nruns = 0
    for o in obs:
        o.pop("case", None)
        for r_ in o["obs"].get("runs", []):
            nruns += 1
            for cl, n in r_.get("classes", {}).items():
                classes[cl] = classes.get(cl, 0) + n
        slim = {"obs": {"result": o["obs"].get("result"), "runs": [{"ok": r_["ok"], "digest": r_["digest"]} for r_ in o["obs"].get("runs", [])]}}
        lines.append(json.dumps(slim, separators=(",", ":")))
        run.count_case(json.dumps([o["kind"], o["perchrom"], o["ips"], o["zooms"], o["compress"]]), len(o["perchrom"]) >= 2)
    run.cov["writer_runs_compared"] = nruns
    run.cov["interleaving_classes_reached"] = classes
    need = {"switch-before-first-write", "switch-between-writes", "switch-after-drop"}
    if not need <= set(classes):
        raise ToolError("vacuity: interleaving classes reached %s (need %s)" % (sorted(classes), sorted(need)))
    # converters
    tdir = cf.tools_dir()
    d = os.path.join(run.wd, "files")
    os.makedirs(d, exist_ok=True)
    conv = []
    for k in range(6 if run.thorough else 2):
        for kind in ("bw", "bb"):
            items = cf.text_items(kind, 3 if k % 2 == 0 else 2)
            inp, sizes, _ = cf.write_inputs(d, kind, items, "cv%d%s" % (k, kind))
            big = os.path.join(d, "cv%d.%s" % (k, kind))
            rc, _, err = cf.run_tool(tdir, "own", "bedgraphtobigwig" if kind == "bw" else "bedtobigbed", [inp, sizes, big, "-t", "2"])
            runs = []
            for j, (th, inm, seed) in enumerate([(1, 0, 0)] + [(rng.choice([2, 3, 4, 8, 16]), rng.randint(0, 1), rng.randint(1, 10 ** 6)) for _ in range(8 if run.thorough else 4)]):
                out = os.path.join(d, "cv%d_%s_%d.txt" % (k, kind, j))
                env_before = os.environ.get("BIGTOOLS_VERIF_DELAY_SEED")
                args = [big, out, "-t", str(th)] + (["--inmemory"] if inm else [])
                if seed:
                    os.environ["BIGTOOLS_VERIF_DELAY_SEED"] = str(seed)
                rc2, _, err2 = cf.run_tool(tdir, "own", "bigwigtobedgraph" if kind == "bw" else "bigbedtobed", args)
                os.environ.pop("BIGTOOLS_VERIF_DELAY_SEED", None)
                data = open(out, "rb").read() if os.path.exists(out) else b""
                runs.append({"ok": 1 if (rc == 0 and rc2 == 0) else 0, "digest": hashlib.sha256(data).hexdigest()[:24] + ":%d" % len(data)})
            conv.append({"obs": {"result": "ok", "runs": runs}})
            lines.append(json.dumps(conv[-1], separators=(",", ":")))
            run.count_case("converter %s %d" % (kind, k), True)
    allobs = obs + conv
    bad = validate_obs("Obs_Det", "Obs.cfg", lines, run.wd, "obs", shards=1)
    run.cov["traces_validated_against_impl"] += len(allobs)
    for i, tag in bad:
        o = allobs[i]
        if "kind" in o:
            detail = [{"cfg": c, "digest": r_["digest"], "ok": r_["ok"], "err": r_.get("err", "")[:80]} for c, r_ in zip(o["configs"], o["obs"].get("runs", []))]
            run.violation("C11 %s: kind=%s perchrom=%s ips=%s zooms=%s: %s" % (tag, o["kind"], o["perchrom"], o["ips"], o["zooms"], json.dumps(detail)[:400]),
                          {"kind": "det", "tag": tag, "case": {k: o[k] for k in o if k != "obs"}, "runs": detail})
        else:
            run.violation("C11 %s: multi-threaded converter output differs from -t 1: %s" % (tag, json.dumps(o)[:300]), {"kind": "conv", "tag": tag, "obs": o})
    run.cov["rule"] = ("seeded inputs (2..6 chromosomes, 1..3000 items each, several sections per chromosome) x format options; each written under a reference configuration and "
                       "N others (threads, runtime, channel, staging, source) with seeded + role-biased delays at the hook points; converters -t N vs -t 1; "
                       "non-trivial = at least 2 chromosomes; distinct by (kind, sizes, options)")
    run.sample({"case": {k: obs[0][k] for k in ("kind", "perchrom", "ips", "zooms")}, "configs": obs[0]["configs"][:3], "digests": [r_["digest"] for r_ in obs[0]["obs"].get("runs", [])][:3]})
    run.assumptions += ["real tokio schedules are biased by seeded delays, not enumerated: the exhaustive claim is on Pipeline.tla; the code claim is that every observed run produced identical bytes",
                        "single-pass and two-pass writing select zoom levels differently (a format option): runs are compared within one pass mode"]
    return run.finish()


if __name__ == "__main__":
    main_wrap(main)
