"""C03 — bigWig range queries: exact, clipped, ordered, history independent.
(1) every layout of the C01 generator, ALL ranges 0 <= s <= e <= L (get_interval + values), judged by
    BigWigSpec!IntervalOK / ValuesOK;  (2) Reader.tla: every history (interval / values / to-cached /
    reopen) of bounded length over fixed multi-level files, model-checked for HistoryIndependent with
    CacheCap = 2 and replayed against one real reader instance; (3) one long history crossing the real
    5000-entry cache reset."""
import json
from checks.bbi_family import *


def main():
    run = Run("C03")
    sizes = lambda b: [b["L"]] * b["NC"]
    cfgs = ["MC_BigWig_t1.cfg", "MC_BigWig_t2.cfg"] if run.thorough else ["MC_BigWig_q1.cfg", "MC_BigWig_q2.cfg"]
    desc = lambda o: {"result": o["obs"].get("result"), "err": o["obs"].get("err"), "queries": o["obs"].get("queries", [])[:80]}

    def build(beh, k0):
        # all ranges are queried on every file: a seeded stratum of the layouts (half in the quick tier, a fifth of the much
        # larger thorough enumeration) keeps the tier within the hour
        beh = beh[run.seed % 5::5] if run.thorough else beh[::2]
        cases = make_cases(beh, "bw", sizes, run, allq=1, k0=k0)
        for k, c in enumerate(cases):
            c["opts"]["bs"] = 2
            c["cached"] = k % 2        # every other file: all queries in sequence through one caching reader
            if k % 4 >= 2:
                c["qorder"] = "shuffle"   # ... half of them in a seeded permutation (non-monotonic, chromosomes interleaved)
            if k % 11 == 5:
                c["scale"] = 2 ** 28     # positions up to 3.2e9: beyond 2^31, below 2^32 (comparisons must be unsigned 32-bit)
        return cases
    # exhaustive layouts, then deeper ones by random walks (5..8 items over two chromosomes, fan-out 2 => 3- and 4-level indexes)
    obs = run_batches(run, "C03", "MC_BigWig", cfgs, "Obs_BigWig", lambda o: len(o["items"]) >= 2, desc, build,
                      sims=[("MC_BigWig_deep.cfg", 3000 if run.thorough else 300)], size=150000)
    run.sample({"items": obs[len(obs) // 3]["items"], "queries": obs[len(obs) // 3]["obs"].get("queries", [])[:3]})
    # (2) histories
    hb = []
    # quick: histories of 2 calls (3 with the caching start) over {interval, values, zoom}; thorough: 3 calls - without zoom queries on
    # files 1 and 3 (the state space triples), with them on file 2 - plus the quick configurations of files 1 and 3
    for cfg in (["MC_Reader_t1.cfg", "MC_Reader_t2.cfg", "MC_Reader_t3.cfg", "MC_Reader_q1.cfg", "MC_Reader_q3.cfg"] if run.thorough else
                ["MC_Reader_q1.cfg", "MC_Reader_q2.cfg", "MC_Reader_q3.cfg"]):
        f = int(cfg[-5])
        r = tlc("MC_Reader", cfg, os.path.join(run.wd, "mc_reader%d" % f), workers=6, timeout=3000, xmx="8g")
        tlc_must_pass(r, "Reader.tla HistoryIndependent/CacheCoherent (%s)" % cfg)
        run.add_tlc(cfg[:-4], r)
        hb += r.replays
    if len(hb) < 500:
        raise ToolError("vacuity: %d histories" % len(hb))
    hcases = []
    for k, b in enumerate(hb):
        nchrom = max(it[0] for it in b["items"])
        hcases.append({"kind": "bw", "chroms": [6] * nchrom, "items": b["items"], "hist": b["hist"], "vmap": "int", "scale": 1, "zrecs": b.get("zrecs", []),
                       "opts": {"ips": 1, "bs": b["bs"], "zooms": [2] if b.get("zrecs") else [], "zmode": "manual", "compress": k % 2, "inmem": 1, "threads": 1, "rt": "current", "pass": 1, "chan": 100}})
    # (2b) a tenth of the histories end with N readers obtained by reopen(), used AT THE SAME TIME from N threads (what the
    #      multi-threaded converters do): a reopened reader must not share its file position with the one it came from
    for k, hc in enumerate(hcases):
        if k % 10 == 3:
            L = 6
            nchrom = len(hc["chroms"])
            qs = [[c_, s_, e_] for c_ in range(1, nchrom + 1) for s_ in range(0, L) for e_ in range(s_ + 1, L + 1) if (s_ + e_) % 2 == 0]
            hc["hist"] = list(hc["hist"]) + [{"op": "par", "c": 0, "s": 0, "e": 0, "n": 4, "rounds": 12, "qs": qs}]
    # (3) the real cache capacity: 6000 single-value blocks, a full scan through the caching reader, then narrow queries
    n = 6000
    items = [[1, 2 * i, 2 * i + 1, 1 + i % 5] for i in range(n)]
    long_hist = [{"op": "cached", "c": 0, "s": 0, "e": 0}, {"op": "interval", "c": 1, "s": 0, "e": 2 * n, "skip": 1},
                 {"op": "interval", "c": 1, "s": 9995, "e": 10003}, {"op": "values", "c": 1, "s": 2, "e": 9}, {"op": "reopen", "c": 0, "s": 0, "e": 0},
                 {"op": "interval", "c": 1, "s": 11990, "e": 12000}, {"op": "values", "c": 1, "s": 9998, "e": 10004}, {"op": "interval", "c": 1, "s": 0, "e": 3}]
    hcases.append({"kind": "bw", "chroms": [2 * n], "items": items, "hist": long_hist, "vmap": "int", "scale": 1, "long": 1,
                   "opts": {"ips": 1, "bs": 4, "zooms": [], "zmode": "manual", "compress": 1, "inmem": 1, "threads": 1, "rt": "current", "pass": 1, "chan": 100}})
    hobs = run_harness("reader", hcases, run.wd, hang_timeout=30)
    lines = []
    for o in hobs:
        o.pop("case", None)
        if o.get("long"):
            # the validator only needs the stored values near the narrow queries
            keep = [it for it in o["items"] if it[1] < 20 or 9980 <= it[1] <= 10020 or it[1] >= 11980]
            o = dict(o, items=keep)
        lines.append(json.dumps(o, separators=(",", ":")))
        run.count_case(json.dumps([o["items"][:8], o["hist"]]), any(h["op"] in ("cached", "reopen") for h in o["hist"]))
    bad = validate_obs("Obs_Reader", "Obs.cfg", lines, run.wd, "hist")
    run.cov["traces_validated_against_impl"] += len(hobs)
    run.cov["histories"] = len(hobs)
    run.cov["histories_with_zoom_queries"] = sum(1 for o in hobs if any(h["op"] == "zoom" for h in o["hist"]))
    run.cov["histories_zoom_then_data"] = sum(1 for o in hobs if any(h["op"] == "zoom" and any(g["op"] in ("interval", "values") for g in o["hist"][i + 1:]) for i, h in enumerate(o["hist"])))
    for i, tag in bad:
        o = hobs[i]
        run.violation("C03 history %s: %s" % (json.dumps(o["hist"])[:300], tag), {"kind": "reader", "tag": tag, "case": {k: o[k] for k in o if k not in ("obs",) and not (k == "items" and o.get("long"))}, "obs": o["obs"]})
    run.sample({"history": hobs[len(hobs) // 2]["hist"], "answers": hobs[len(hobs) // 2]["obs"].get("answers")})
    run.cov["rule"] = ("(1) all layouts x all ranges; (2) all histories of length <= MaxSteps over {interval, values, zoom-level query} x boundary ranges + to-cached + reopen on 3 fixed "
                       "multi-level files; (3) one history over 6000 blocks crossing the real cache reset; non-trivial = at least 2 values / a history that converts or reopens; "
                       "distinct by (items, history)")
    run.assumptions += ["the model's cache capacity is 2; the real capacity 5000 is crossed by one fixed long history"]
    return run.finish()


if __name__ == "__main__":
    main_wrap(main)
