CONSTANTS
  ProducerProgs = {}
  ConsumerProgs = {}
SPECIFICATION TSpec
INVARIANT Inv
CONSTRAINT HighWater
POSTCONDITION Accepted
CHECK_DEADLOCK FALSE
