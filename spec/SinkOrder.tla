------------------------------ MODULE SinkOrder ------------------------------
(* C14, design level: the order in which the writers touch the regions of the destination, a
   crash after any operation, a reader that accepts a file iff its real header is present, and the
   property that an accepted prefix already holds everything it advertises (PrefixSafe).
   Regions: "hdr" (64-byte header + zoom directory), "asql", "summary", "count", "data",
   "ctree", "index", "zdata1", "zindex1", "zdata2", "zindex2", "trailer".
   Each region is "none" (never written), "blank" (placeholder) or "final". *)
EXTENDS Naturals, Sequences, FiniteSets, TLC

CONSTANTS NZooms,       \* 0..2 zoom levels
          IsBed,        \* bigBed stores an autoSql text
          HeaderFirst,  \* FALSE = the code; TRUE = a mutated writer that writes the real header early (vacuity guard)
          Stale,        \* TRUE: the destination already holds ANOTHER complete file (every region "old") when the write starts
          SkipBlank     \* FALSE = the code; TRUE = a mutated writer that does not blank the header first (vacuity guard for StaleSafe)

Regions == {"hdr", "asql", "summary", "count", "data", "ctree", "index", "zdata1", "zindex1", "zdata2", "zindex2", "trailer"}
ZoomRegs == (IF NZooms >= 1 THEN {"zdata1", "zindex1"} ELSE {}) \cup (IF NZooms >= 2 THEN {"zdata2", "zindex2"} ELSE {})
\* what a file advertises once its header is readable: records, indexes, zoom levels (the summary
\* and the count are not records and are excluded, as in the statement)
Advertised == {"data", "ctree", "index"} \cup ZoomRegs \cup (IF IsBed THEN {"asql"} ELSE {})

\* the writer's programme: <<region, content>>
Prog ==
  LET pre == (IF SkipBlank THEN <<>> ELSE << <<"hdr", "blank">> >>) \o (IF IsBed THEN << <<"asql", "final">> >> ELSE <<>>) \o << <<"summary", "blank">>, <<"count", "blank">> >>
      body == << <<"data", "final">>, <<"ctree", "final">>, <<"index", "final">> >>
      z1 == IF NZooms >= 1 THEN << <<"zdata1", "final">>, <<"zindex1", "final">> >> ELSE <<>>
      z2 == IF NZooms >= 2 THEN << <<"zdata2", "final">>, <<"zindex2", "final">> >> ELSE <<>>
      fin == << <<"hdr", "final">>, <<"summary", "final">>, <<"count", "final">>, <<"trailer", "final">> >>
  IN IF HeaderFirst THEN pre \o << <<"hdr", "final">> >> \o body \o z1 \o z2 \o Tail(fin) ELSE pre \o body \o z1 \o z2 \o fin

VARIABLES st, pc, crashed
vars == <<st, pc, crashed>>
Init == st = [r \in Regions |-> IF Stale THEN "old" ELSE "none"] /\ pc = 1 /\ crashed = FALSE
Step == /\ ~crashed /\ pc <= Len(Prog)
        /\ st' = [st EXCEPT ![Prog[pc][1]] = Prog[pc][2]] /\ pc' = pc + 1 /\ UNCHANGED crashed
Crash == /\ ~crashed /\ crashed' = TRUE /\ UNCHANGED <<st, pc>>
Next == Step \/ Crash
Spec == Init /\ [][Next]_vars

ReaderAccepts == st["hdr"] = "final"
PrefixSafe == ReaderAccepts => \A r \in Advertised : st[r] = "final"
\* over an older complete file: as long as the OLD header is what a reader sees, everything the old file advertises is untouched
\* (an accepted crash image serves exactly the old file or exactly the new one, never a mixture)
StaleSafe == st["hdr"] = "old" => \A r \in Advertised : st[r] = "old"
Complete == pc > Len(Prog) => \A r \in Regions \ ((IF IsBed THEN {} ELSE {"asql"}) \cup ({"zdata1", "zindex1", "zdata2", "zindex2"} \ ZoomRegs)) : st[r] = "final"
=============================================================================
