CONSTANTS
  AnyOrder = FALSE
  MinItems = 0
  NC = 1
  L = 6
  MaxItems = 4
  MaxPerChrom = 4
  IPS = {1, 2}
  ZoomLists = "b"
  EndSlack = 1
INIT Init
NEXT Next
INVARIANTS MechSummaryOK MechZoomOK Emit
CHECK_DEADLOCK FALSE
