CONSTANTS
  K = 3
  W = 4
  Fail = {1,3}
SPECIFICATION Spec
INVARIANTS AbsInv QueueShape
PROPERTY AbsSpec
CHECK_DEADLOCK FALSE
