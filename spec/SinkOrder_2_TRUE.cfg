CONSTANTS
  NZooms = 2
  IsBed = TRUE
  HeaderFirst = FALSE
SPECIFICATION Spec
INVARIANTS PrefixSafe Complete
CHECK_DEADLOCK FALSE
