CONSTANTS
  NZooms = 2
  IsBed = TRUE
  HeaderFirst = FALSE
  Stale = FALSE
  SkipBlank = FALSE
SPECIFICATION Spec
INVARIANTS PrefixSafe Complete
CHECK_DEADLOCK FALSE
