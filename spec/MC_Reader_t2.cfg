CONSTANTS
  Kind = "bw"
  Items <- FileItems
  Fanout = 2
  CacheCap = 2
  Queries <- AllQ
  ZRecs <- FileZ
  MaxSteps = 3
  FileId = 2
INIT MCInit
NEXT MCNext
INVARIANTS HistoryIndependent ZoomHistoryIndependent CacheCoherent Emit
CHECK_DEADLOCK FALSE
