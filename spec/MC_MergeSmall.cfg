CONSTANTS
  N = 5
INIT Init
NEXT Next
INVARIANT Emit
CHECK_DEADLOCK FALSE
