CONSTANTS
  K = 4
  W = 3
  Fail = {2}
INIT Init
NEXT Next
INVARIANTS IndInv WaitSafe ExactlyOnce
CHECK_DEADLOCK FALSE
