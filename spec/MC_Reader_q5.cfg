CONSTANTS
  Kind = "bb"
  Items <- FileItems
  Fanout = 2
  CacheCap = 2
  Queries <- AllQ
  ZRecs <- FileZ
  MaxSteps = 2
  FileId = 5
INIT MCInit
NEXT MCNext
INVARIANTS HistoryIndependent ZoomHistoryIndependent CacheCoherent Emit
CHECK_DEADLOCK FALSE
