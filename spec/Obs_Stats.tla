-------------------------------- MODULE Obs_Stats --------------------------------
EXTENDS Stats, Json, IOUtils
Obs == ndJsonDeserialize(IOEnv.OBS)
VARIABLE x
Init == x = 0
Next == UNCHANGED x
Trip(o, c) == Map(LAMBDA it : <<it[2], it[3], it[4]>>, ItemsOf(o.items, c))
Verdict(o) ==
  IF o.obs.rc # 0 THEN "tool-failed"
  ELSE IF o.obs.parsed # 1 THEN "unparsable-output"
  ELSE IF o.tool = "average" THEN
       IF ~RowsOK(o.items, o.regions, o.minmax = 1, o.obs.rows) THEN "rows"
       ELSE IF o.obs.same_as_t1 # 1 THEN "output-depends-on-thread-count" ELSE "ok"
  ELSE IF Len(o.obs.vrows) # Len(o.regions) THEN "row-count"
       ELSE IF \E i \in 1..Len(o.regions) : ~ValuesRowOK(Trip(o, o.regions[i][1]), o.regions[i][2], o.regions[i][3], o.obs.vrows[i]) THEN "values"
       ELSE "ok"
Post == /\ \A i \in 1..Len(Obs) : LET v == Verdict(Obs[i]) IN (v = "ok" \/ PrintT(<<"BAD", i, v>>))
        /\ PrintT(<<"CHECKED", Len(Obs)>>)
=============================================================================
