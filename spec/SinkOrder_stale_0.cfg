CONSTANTS
  NZooms = 0
  IsBed = FALSE
  HeaderFirst = FALSE
  Stale = TRUE
  SkipBlank = FALSE
SPECIFICATION Spec
INVARIANTS PrefixSafe StaleSafe Complete
CHECK_DEADLOCK FALSE
