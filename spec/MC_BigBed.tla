------------------------------ MODULE MC_BigBed ------------------------------
(* Enumerates every start-sorted BED layout within the bounds: disjoint, overlapping, nested,
   duplicate, zero-length entries, long entries followed by short ones, ends up to one base past
   the chromosome (the writer does not check ends), one or several chromosomes. *)
EXTENDS BigBedSpec, Json
CONSTANTS AnyOrder, MinItems, NC, L, MaxItems, MaxPerChrom, IPS, ZoomLists, EndSlack
VARIABLES input, cur, pos, nIn, done, ips, zl
vars == <<input, cur, pos, nIn, done, ips, zl>>
AscZ(z) == IF Len(z) = 2 /\ z[1] > z[2] THEN <<z[2], z[1]>> ELSE z
ZL == CASE ZoomLists = "a" -> {<<>>, <<2>>, <<3>>, <<2, 4>>}
        [] ZoomLists = "b" -> {<<2>>, <<3>>, <<2, 5>>, <<5, 2>>}     \* a manual list need not be ascending: the file lists its levels ascending
        [] ZoomLists = "c" -> {<<>>, <<2>>}
Init == /\ input = <<>> /\ cur = 0 /\ pos = 0 /\ nIn = 0 /\ done = FALSE /\ ips \in IPS /\ zl \in ZL
AddEntry(s, e) ==
  /\ ~done /\ cur > 0 /\ Len(input) < MaxItems /\ nIn < MaxPerChrom
  /\ input' = Append(input, <<cur, s, e, 1>>) /\ pos' = s /\ nIn' = nIn + 1
  /\ UNCHANGED <<cur, done, ips, zl>>
NextChrom(c) == /\ ~done /\ (cur = 0 \/ nIn > 0) /\ Len(input) < MaxItems
                /\ cur' = c /\ pos' = 0 /\ nIn' = 0 /\ UNCHANGED <<input, done, ips, zl>>
Finish == /\ ~done /\ cur > 0 /\ nIn > 0 /\ Len(input) >= MinItems /\ done' = TRUE /\ UNCHANGED <<input, cur, pos, nIn, ips, zl>>
Next == \/ \E s \in pos..(L - 1) : \E e \in s..(L + EndSlack) : AddEntry(s, e)
        \/ \E c \in (IF AnyOrder THEN (1..NC) \ {input[i][1] : i \in 1..Len(input)} ELSE (cur + 1)..NC) : NextChrom(c)
        \/ Finish
\* mechanism => abstract, at every complete input
MechSummaryOK == done => SummaryOKB(input, MechSummary(input))
MechZoomOK == done => ZoomsOKB(input, ModelZoomsB(input, AscZ(zl)))
Emit == done => PrintT(<<"REPLAY", ToJson([items |-> input, ips |-> ips, zooms |-> zl, NC |-> NC, L |-> L, sort |-> IF AnyOrder THEN "start" ELSE "all",
                                          mz |-> ModelZoomsB(input, AscZ(zl)), msum |-> MechSummary(input)])>>)
=============================================================================
