CONSTANTS
  K = 2
  W = 4
  Fail = {2}
SPECIFICATION Spec
INVARIANTS TypeOK Ordered ExactlyOnce WaitSafe Outcome NoSkippedFailure
PROPERTY Finishes
CHECK_DEADLOCK FALSE
