------------------------- MODULE ChunkPoolIndProof -------------------------
(* TLAPS: IndInv of ChunkPoolInd.tla is inductive and implies WaitSafe and ExactlyOnce, for ANY K, W, Fail. *)
EXTENDS ChunkPoolInd, TLAPS
ASSUME ConstAssump == K \in Nat /\ W \in Nat /\ Fail \subseteq Nat

THEOREM InitOK == Init => IndInv
  BY ConstAssump DEF Init, IndInv, Chunks, Threads, Active

LEMMA RecvOK == ASSUME IndInv, NEW t \in Threads, Recv(t) PROVE IndInv'
  BY ConstAssump DEF IndInv, Recv, Chunks, Threads, Active
LEMMA SendOK == ASSUME IndInv, NEW t \in Threads, Send(t) PROVE IndInv'
  BY ConstAssump DEF IndInv, Send, Chunks, Threads, Active
LEMMA ConsumeOK == ASSUME IndInv, pc[0] \in {"try", "wait"}, Consume PROVE IndInv'
  BY ConstAssump DEF IndInv, Consume, Chunks, Threads, Active
LEMMA MTryOK == ASSUME IndInv, MTry PROVE IndInv'
  <1>1. CASE slot[head] \in {"ok", "err"}
    BY <1>1, ConsumeOK DEF MTry
  <1>2. CASE ~(slot[head] \in {"ok", "err"})
    BY <1>2, ConstAssump DEF IndInv, MTry, Chunks, Threads, Active
  <1> QED BY <1>1, <1>2
LEMMA MWaitOK == ASSUME IndInv, MWait PROVE IndInv'
  BY ConsumeOK DEF MWait

THEOREM StepOK == IndInv /\ [Next]_vars => IndInv'
  <1> SUFFICES ASSUME IndInv, [Next]_vars PROVE IndInv' OBVIOUS
  <1>1. CASE UNCHANGED vars
    BY <1>1 DEF IndInv, vars, Active, Chunks, Threads
  <1>2. CASE Next
    <2>1. PICK t \in Threads : Thread(t) BY <1>2 DEF Next
    <2>2. CASE Recv(t) BY <2>2, RecvOK
    <2>3. CASE Send(t) BY <2>3, SendOK
    <2>4. CASE t = 0 /\ MTry BY <2>4, MTryOK
    <2>5. CASE t = 0 /\ MWait BY <2>5, MWaitOK
    <2> QED BY <2>1, <2>2, <2>3, <2>4, <2>5 DEF Thread
  <1> QED BY <1>1, <1>2

THEOREM WaitSafeOK == IndInv => WaitSafe
  BY ConstAssump DEF IndInv, WaitSafe, Chunks, Threads, Active
THEOREM ExactlyOnceOK == IndInv => ExactlyOnce
  BY ConstAssump DEF IndInv, ExactlyOnce, Chunks, Threads, Active
THEOREM Safety == Spec => [](WaitSafe /\ ExactlyOnce)
  <1>1. Spec => []IndInv BY InitOK, StepOK, PTL DEF Spec
  <1> QED BY <1>1, WaitSafeOK, ExactlyOnceOK, PTL
=============================================================================
