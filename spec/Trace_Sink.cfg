SPECIFICATION TSpec
INVARIANT PrefixSafe
POSTCONDITION Accepted
CHECK_DEADLOCK FALSE
