CONSTANTS
  K = 4
  W = 3
  Fail = {2}
SPECIFICATION Spec
INVARIANTS AbsInv QueueShape
PROPERTY AbsSpec
CHECK_DEADLOCK FALSE
