---------------------------- MODULE Obs_AnyWriter ----------------------------
(* C10.  Each line: a well-formed file laid out by the independent encoder (stage "guard": its
   decoded image must be WellFormed and decode to the data set -- an encoder bug must not pass for
   a reader bug) or what the real readers returned for it (stage "read"). *)
EXTENDS BBIFormat, Json, IOUtils
W == INSTANCE BigWigSpec
B == INSTANCE BigBedSpec
Obs == ndJsonDeserialize(IOEnv.OBS)
VARIABLE x
Init == x = 0
Next == UNCHANGED x
Records(img) == FlatR(Map(LAMBDA b : b.items, img.blocks))
Sizes(o) == [c \in 1..o.nchrom |-> 8]
Guard(o) == LET why == WhyNot(o.img, o.kind, ChromsOf(o.items), Sizes(o), TRUE) IN
            IF why # "ok" THEN why ELSE IF Records(o.img) # o.gitems THEN "records" ELSE "ok"
Triples(items, c) == Map(LAMBDA it : <<it[2], it[3], it[4]>>, ItemsOf(items, c))
SummaryAsStored(o) == IF o.summary = 1 THEN [bases |-> o.summ.bases, min |-> o.summ.min, max |-> o.summ.max, sum |-> o.summ.sum, sumsq |-> o.summ.sumsq, int |-> 1]
                      ELSE [bases |-> 0, min |-> 0, max |-> 0, sum |-> 0, sumsq |-> 0, int |-> 1]
ZQBad(o, q) == LET recs2 == Map(LAMBDA r : <<r[2], r[3]>>, SelectSeq(o.zrecs, LAMBDA r : r[1] = q.c)) IN ~ZoomQueryOK(recs2, q.s, q.e, q.recs)
ReadVerdict(o) ==
  IF o.obs.result # "ok" THEN "reader-failed"
  ELSE IF {<<c[1], c[2]>> : c \in Range(o.obs.chroms)} # {<<c, 8>> : c \in 1..o.nchrom} \/ Len(o.obs.chroms) # o.nchrom THEN "chromtable"
  ELSE IF o.obs.summary # SummaryAsStored(o) THEN "summary"
  ELSE IF o.kind = "bw" THEN
       IF o.obs.read # o.items THEN "full-read"
       ELSE IF \E k \in 1..Len(o.obs.queries) : ~W!IntervalOK(Triples(o.items, o.obs.queries[k].c), o.obs.queries[k].s, o.obs.queries[k].e, o.obs.queries[k].iv) THEN "interval"
       ELSE IF \E k \in 1..Len(o.obs.queries) : ~W!ValuesOK(Triples(o.items, o.obs.queries[k].c), o.obs.queries[k].s, o.obs.queries[k].e, o.obs.queries[k].vals) THEN "values"
       ELSE IF o.zoom # 0 /\ (Len(o.obs.zooms) # 1 \/ o.obs.zint # 1) THEN "zoom-levels"
       ELSE IF o.zoom # 0 /\ o.obs.zooms[1].recs # o.zrecs THEN "zoom-records"
       ELSE IF o.zoom # 0 /\ \E k \in 1..Len(o.obs.zqueries) : ZQBad(o, o.obs.zqueries[k]) THEN "zoom-query"
       ELSE "ok"
  ELSE IF o.obs.readok # 1 \/ o.obs.read # B!WithIds(o.items) THEN "full-read"
       ELSE IF o.obs.count # Len(o.items) THEN "count"
       ELSE IF \E k \in 1..Len(o.obs.queries) : o.obs.queries[k].err = 1 \/ ~B!EntryQueryOK(B!Stored(o.items, o.obs.queries[k].c), o.obs.queries[k].s, o.obs.queries[k].e, o.obs.queries[k].iv) THEN "entry-query"
       ELSE "ok"
Verdict(o) == IF o.stage = "guard" THEN Guard(o) ELSE ReadVerdict(o)
Post == /\ \A i \in 1..Len(Obs) : LET v == Verdict(Obs[i]) IN (v = "ok" \/ PrintT(<<"BAD", i, v>>))
        /\ PrintT(<<"CHECKED", Len(Obs)>>)
=============================================================================
