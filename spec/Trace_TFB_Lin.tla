--------------------------- MODULE Trace_TFB_Lin ---------------------------
(* Linearisation-style trace validation of THREADED executions of the real TempFileBuffer.
   Each thread logs begin/end of every public call, stamped by one global atomic counter.  The
   call takes effect at some instant between its begin and its end: TLC searches for an order of
   the specification's actions (TLin) that is consistent with the log and produces exactly the
   logged results.  Several recorded executions are concatenated, separated by reset events. *)
EXTENDS TempFileBuffer, Json, IOUtils, TLCExt
Tr == ndJsonDeserialize(IOEnv.TRACE)
VARIABLES l, pend, lin
tvars == <<vars, l, pend, lin>>
T == {"P", "C"}
NoPend == [op |-> "", n |-> 0]
NoLin == [done |-> FALSE, res |-> NoRes]

ASSUME TLCSet(7, 0)

TInit == /\ l = 2 /\ Tr[1].kind = "reset"
         /\ InitWith([pp |-> Tr[1].pp, cp |-> Tr[1].cp])
         /\ pend = [t \in T |-> NoPend] /\ lin = [t \in T |-> NoLin]
E == Tr[l]

TReset == /\ l <= Len(Tr) /\ E.kind = "reset" /\ Done /\ \A t \in T : pend[t] = NoPend
          /\ bstate' = "NotStarted" /\ staged' = <<>> /\ pdest' = None /\ mailbox' = None /\ closed' = None
          /\ written' = <<>> /\ nextb' = 1 /\ ppc' = 1 /\ cpc' = 1 /\ cdest' = Some(Pre)
          /\ cres' = NoRes /\ waiting' = FALSE /\ cfg' = [pp |-> E.pp, cp |-> E.cp]
          /\ l' = l + 1 /\ UNCHANGED <<pend, lin>>

TBegin == /\ l <= Len(Tr) /\ E.kind = "begin" /\ pend[E.t] = NoPend
          /\ pend' = [pend EXCEPT ![E.t] = [op |-> E.op, n |-> E.n]]
          /\ l' = l + 1 /\ UNCHANGED <<vars, lin>>

Act(p) == CASE p.op = "w"      -> PWrite /\ PCur = p.n
            [] p.op = "f"      -> PFlush
            [] p.op = "drop"   -> PDrop
            [] p.op = "switch" -> CSwitch
            [] p.op = "await"  -> CAwait
            [] p.op = "ecw"    -> CEcw
            [] p.op = "len"    -> CLen
            [] OTHER           -> FALSE

\* the call of thread t takes effect (silent step; at most one per begun call)
TLin(t) == /\ pend[t] # NoPend /\ ~lin[t].done /\ Act(pend[t])
           /\ lin' = [lin EXCEPT ![t] = [done |-> TRUE, res |-> IF t = "C" THEN cres' ELSE NoRes]]
           /\ UNCHANGED <<l, pend>>

ResOK(e, r) == IF e.op \in {"await", "ecw"} THEN e.tag = "file" /\ r.tag = "file" /\ r.val = e.val
               ELSE IF e.op = "len" THEN e.tag = "len" /\ r.tag = "len" /\ r.val = e.val
               ELSE e.tag = "none" /\ r.tag # "panic"
TEnd == /\ l <= Len(Tr) /\ E.kind = "end" /\ pend[E.t].op = E.op /\ lin[E.t].done
        /\ ResOK(E, lin[E.t].res)
        /\ pend' = [pend EXCEPT ![E.t] = NoPend] /\ lin' = [lin EXCEPT ![E.t] = NoLin]
        /\ l' = l + 1 /\ UNCHANGED vars

TNext == TReset \/ TBegin \/ TEnd \/ \E t \in T : TLin(t)
TSpec == TInit /\ [][TNext]_tvars

Inv == Delivered /\ LenIsWritten /\ NoForbiddenPanic /\ RealIsOrderedImage
\* high-water mark of the trace position (workers = 1)
HighWater == IF l > TLCGet(7) THEN TLCSet(7, l) ELSE TRUE
Accepted ==
  LET h == TLCGet(7) IN
  IF h = Len(Tr) + 1 THEN PrintT(<<"ACCEPTED", Len(Tr)>>)
  ELSE PrintT(<<"REJECTED", h>>)
=============================================================================
