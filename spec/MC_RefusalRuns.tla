----------------------------- MODULE MC_RefusalRuns -----------------------------
(* Long streams for C13, described by their runs <<chromosome, number of lines>>: every line is valid on
   its own and starts increase along each chromosome, so the ONLY possible defect is the order of the
   chromosomes (a foreign run embedded in a long run, at a place a bisecting index does not probe; whole
   blocks swapped; a chromosome met twice).  Lengths: 5 (a short run) or several hundred / thousand lines. *)
EXTENDS Naturals, Sequences, TLC, Json
CONSTANTS MaxRuns
VARIABLES runs, done, bad, at
Lens == {5, 900, 2100}
\* bad: 0 = every line is well formed; 1 = one line without a start, 2 = one line with a non-numeric start, 3 = one line
\* without an end -- placed in the middle of run `at`
Init == runs = <<>> /\ done = FALSE /\ bad = 0 /\ at = 0
Add == /\ ~done /\ Len(runs) < MaxRuns
       /\ \E c \in 1..3, n \in Lens : (IF Len(runs) = 0 THEN TRUE ELSE runs[Len(runs)][1] # c) /\ runs' = Append(runs, <<c, n>>)
       /\ UNCHANGED <<done, bad, at>>
Stop == /\ ~done /\ Len(runs) >= 2 /\ (\E i \in 1..Len(runs) : runs[i][2] > 5) /\ done' = TRUE /\ UNCHANGED runs
        /\ \E b \in 0..3 : bad' = b /\ (IF b = 0 THEN at' = 0 ELSE at' \in 1..Len(runs))
Next == Add \/ Stop
ChromOrderBadRuns(r) == \E i \in 1..(Len(r) - 1) : r[i][1] > r[i+1][1]
Emit == done => PrintT(<<"REPLAY", ToJson([runs |-> runs, bad |-> bad, at |-> at, must |-> IF ChromOrderBadRuns(runs) \/ bad # 0 THEN 1 ELSE 0])>>)
=============================================================================
