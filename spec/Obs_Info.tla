-------------------------------- MODULE Obs_Info --------------------------------
(* C06 through the info tools: the text printed by bigwiginfo / bigbedinfo for a written file must
   carry the statistics of the data (covered bases with thousands separators removed, minimum,
   maximum, mean = sum / covered bases with six decimals, item count for bigBed). *)
EXTENDS BBICommon, Json, IOUtils
W == INSTANCE BigWigSpec
B == INSTANCE BigBedSpec
Obs == ndJsonDeserialize(IOEnv.OBS)
VARIABLE x
Init == x = 0
Next == UNCHANGED x
Abs(v) == IF v < 0 THEN -v ELSE v
U == 1000000
\* expected statistics (unscaled positions; `scale` multiplies every position)
ExpW(items) == LET len(it) == End(it) - Start(it)  p == W!Pos(items) IN
  [bases |-> SeqSum(Map(len, items)), sum |-> SeqSum(Map(LAMBDA it : len(it) * Val(it), items)),
   min |-> SetMin({Val(it) : it \in Range(p)}), max |-> SetMax({Val(it) : it \in Range(p)})]
ExpB(items) == LET parts == B!SummaryParts(items, ChromsOf(items)) IN
  [bases |-> SeqSum(Map(LAMBDA q : q.bases, parts)), sum |-> SeqSum(Map(LAMBDA q : q.sum, parts)),
   min |-> SetMin({q.min : q \in Range(parts)}), max |-> SetMax({q.max : q \in Range(parts)})]
HasCover(o) == IF o.kind = "bw" THEN W!Pos(o.items) # <<>> ELSE B!SummaryParts(o.items, ChromsOf(o.items)) # <<>>
Verdict(o) ==
  IF o.obs.rc # 0 \/ o.obs.parsed # 1 THEN "info-tool-failed"
  ELSE IF ~HasCover(o) THEN "ok"
  ELSE LET e == IF o.kind = "bw" THEN ExpW(o.items) ELSE ExpB(o.items) IN
       IF o.obs.bases # e.bases * o.scale THEN "basesCovered"
       ELSE IF o.kind = "bb" /\ o.obs.items # Len(o.items) THEN "itemCount"
       ELSE IF o.zl = 0 /\ (o.obs.min_u # U * e.min \/ o.obs.max_u # U * e.max) THEN "min-max"
       ELSE IF Abs(o.obs.mean_u * e.bases - U * e.sum) > e.bases THEN "mean"
       \* option paths: --minmax prints the same extrema; --chroms lists every chromosome that has data
       ELSE IF o.obs.mm = 2 THEN "minmax-option-failed"
       ELSE IF o.obs.mm = 1 /\ o.zl = 0 /\ (o.obs.mm_min_u # U * e.min \/ o.obs.mm_max_u # U * e.max) THEN "minmax-option"
       ELSE IF o.obs.chromlines # Len(ChromsOf(o.items)) THEN "chroms-option"
       ELSE "ok"
Post == /\ \A i \in 1..Len(Obs) : LET v == Verdict(Obs[i]) IN (v = "ok" \/ PrintT(<<"BAD", i, v>>))
        /\ PrintT(<<"CHECKED", Len(Obs)>>)
=============================================================================
