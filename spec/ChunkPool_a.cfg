CONSTANTS
  K = 4
  W = 3
  Fail = {}
SPECIFICATION Spec
INVARIANTS TypeOK Ordered ExactlyOnce WaitSafe Outcome NoSkippedFailure
PROPERTY Finishes
CHECK_DEADLOCK FALSE
