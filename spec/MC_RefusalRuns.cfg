CONSTANTS
  MaxRuns = 4
INIT Init
NEXT Next
INVARIANT Emit
CHECK_DEADLOCK FALSE
