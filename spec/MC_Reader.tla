------------------------------ MODULE MC_Reader ------------------------------
EXTENDS Reader, Json
CONSTANTS MaxSteps, FileId
VARIABLE hist
\* three fixed files: one block per value, fan-out 2 => 2- and 3-level indexes over 2 chromosomes
FileItems == CASE FileId = 1 -> << <<1, 0, 2, 1>>, <<1, 3, 4, 2>>, <<1, 4, 6, 3>>, <<2, 1, 2, 4>>, <<2, 2, 5, 5>> >>
               [] FileId = 2 -> << <<1, 1, 3, 1>>, <<1, 3, 3, 2>>, <<1, 5, 6, 3>> >>
               [] FileId = 3 -> << <<1, 0, 1, 1>>, <<2, 0, 1, 2>>, <<2, 1, 2, 3>>, <<3, 0, 2, 4>>, <<3, 2, 3, 5>>, <<3, 4, 5, 6>>, <<3, 5, 6, 7>> >>
               \* bigBed files (Kind = "bb"; 4th component = entry id): a long entry before short ones, nested, duplicates, equal starts
               [] FileId = 4 -> << <<1, 0, 6, 1>>, <<1, 1, 2, 2>>, <<1, 3, 4, 3>>, <<2, 0, 1, 4>>, <<2, 0, 5, 5>>, <<2, 4, 5, 6>> >>
               [] FileId = 5 -> << <<1, 1, 4, 1>>, <<1, 1, 4, 2>>, <<1, 2, 3, 3>>, <<2, 2, 6, 4>>, <<3, 0, 2, 5>>, <<3, 0, 1, 6>>, <<3, 5, 6, 7>> >>
\* the zoom level of resolution 2 that the writers produce for these files (C07's mechanism), as <<chrom, start, end>>
FileZ == LET lvl == IF Kind = "bb" THEN BB!ZoomRecsAllB(FileItems, ChromsOf(FileItems), 2) ELSE ZoomRecsAllW(FileItems, ChromsOf(FileItems), 2)
         IN Map(LAMBDA r : <<r[1], r[2], r[3]>>, lvl)
NoZ == <<>>
Pts(c) == {0, 6} \cup UNION {{it[2], it[3]} : it \in {x \in Range(FileItems) : x[1] = c}}
AllQ == {<<c, s, e>> \in (1..3) \X (0..6) \X (0..6) : c \in {it[1] : it \in Range(FileItems)} /\ s \in Pts(c) /\ e \in Pts(c) /\ s <= e}
\* the reader may already be the caching reader when the history starts
MCInit == \/ (Init /\ hist = <<>>)
          \/ (/\ mode = "cached" /\ nodeCache = {} /\ blockCache = EmptyCache /\ idxKnown = FALSE
              /\ last = [op |-> "cached", q |-> <<0, 0, 0>>, ans |-> <<>>] /\ steps = 0
              /\ hist = <<[op |-> "cached", c |-> 0, s |-> 0, e |-> 0]>>)
MCNext == /\ steps < MaxSteps
          /\ \/ \E q \in Queries : (Interval(q) /\ hist' = Append(hist, [op |-> "interval", c |-> q[1], s |-> q[2], e |-> q[3]]))
                                \/ (Values(q) /\ hist' = Append(hist, [op |-> "values", c |-> q[1], s |-> q[2], e |-> q[3]]))
             \/ \E q \in Queries : (Zoom(q) /\ hist' = Append(hist, [op |-> "zoom", c |-> q[1], s |-> q[2], e |-> q[3]]))
             \/ (ToCached /\ hist' = Append(hist, [op |-> "cached", c |-> 0, s |-> 0, e |-> 0]))
             \/ (BadChrom /\ hist' = Append(hist, [op |-> "badchrom", c |-> 0, s |-> 0, e |-> 0]))
             \/ (Reopen /\ hist' = Append(hist, [op |-> "reopen", c |-> 0, s |-> 0, e |-> 0]))
Emit == steps = MaxSteps => PrintT(<<"REPLAY", ToJson([file |-> FileId, kind |-> Kind, items |-> Items, bs |-> Fanout, hist |-> hist, zrecs |-> ZRecs])>>)
=============================================================================
