--------------------------- MODULE Trace_ChunkPool ---------------------------
(* Trace validation of the REAL bigwigaverageoverbed -t N against ChunkPool.tla.
   Header line: [k |-> number of ranges, w |-> number of worker threads seen, fail |-> <<failing ranges>>].
   Events (hook points `avg.*`, recorded under one lock in the order the recorder saw them; threads renamed
   0 = main, 1.. = workers, ranges renamed 1..K in queue order - pure renamings done by the check):
     recv t      thread t is ABOUT TO take from the queue
     got c t     thread t took range c                    closed t   thread t found the queue closed
     send c t    thread t is ABOUT TO send the result of range c
     try n       the main thread is ABOUT TO try_recv the result of range n
     wait n      the main thread is ABOUT TO block on the result of range n
     emit n e    the main thread received the result of range n (e = 1: an error)
     exit rc     (appended by the check) the exit status of the process
   Every event is an assertion about the thread's state; between two consecutive events of one thread lies
   at most ONE call on a shared object (one action of ChunkPool), which took effect somewhere between the two
   log entries: TLC searches for the order of these effects (`Ahead`), using the design's own actions.  A step is
   only taken if the thread's next logged event then holds (its outcome was logged), so the search is narrow. *)
EXTENDS ChunkPool, Json, IOUtils, TLC, TLCExt
Tr == ndJsonDeserialize(IOEnv.TRACE)
TraceK == Tr[1].k
TraceW == Tr[1].w
TraceFail == {Tr[1].fail[i] : i \in 1..Len(Tr[1].fail)}
VARIABLE l
tvars == <<vars, l>>
ASSUME TLCSet(7, 0)

\* what event i says about the state
HoldsIn(i, pc_, cur_, head_) == LET e == Tr[i] t == e.t IN
  CASE e.ev = "recv"   -> pc_[t] = (IF t = 0 THEN "recvq" ELSE "recv")
    [] e.ev = "got"    -> pc_[t] = "work" /\ cur_[t] = e.c
    [] e.ev = "closed" -> pc_[t] = (IF t = 0 THEN "wait" ELSE "exit")
    [] e.ev = "send"   -> pc_[t] = "work" /\ cur_[t] = e.c
    [] e.ev = "try"    -> pc_[0] = "try" /\ head_ = e.c
    [] e.ev = "wait"   -> pc_[0] = "wait" /\ head_ = e.c
    [] e.ev = "emit"   -> IF e.e = 1 THEN pc_[0] = "error" /\ head_ = e.c
                          ELSE pc_[0] \in {"try", "done"} /\ head_ = e.c + 1
    \* the process ended: success exactly when every range was copied out, failure exactly when the main thread met a failed range
    [] e.ev = "exit"   -> IF e.c = 0 THEN pc_[0] = "done" ELSE pc_[0] = "error"
    [] OTHER -> FALSE
Holds(i) == HoldsIn(i, pc, cur, head)
\* the next event of thread t at or after position l (0: none)
NextOf(t) == IF \E i \in l..Len(Tr) : Tr[i].t = t THEN CHOOSE i \in l..Len(Tr) : Tr[i].t = t /\ \A j \in l..(i - 1) : Tr[j].t # t ELSE 0

TInit == Init /\ l = 2
Consume_ == l <= Len(Tr) /\ Holds(l) /\ l' = l + 1 /\ UNCHANGED vars
\* the one call between thread t's previous event and its next one takes effect now
Ahead(t) == LET j == NextOf(t) IN
  /\ j # 0 /\ ~Holds(j)
  \* a result only matters to anyone while the main thread is looking at that range: sends of other ranges take effect at the
  \* latest point (their thread's next event); "closed" is observed at the latest point too (a closed queue stays closed)
  /\ (pc[t] = "work" => (cur[t] = head \/ j = l))
  /\ (Tr[j].ev = "closed" => j = l)
  /\ Thread(t) /\ HoldsIn(j, pc', cur', head')
  /\ UNCHANGED l
\* a thread that logged its last event before sending (the run ended): the send still happens
Tail_(t) == NextOf(t) = 0 /\ pc[t] = "work" /\ cur[t] = head /\ Send(t) /\ UNCHANGED l
TNext == Consume_ \/ (\E t \in Threads : Ahead(t) \/ Tail_(t))
TSpec == TInit /\ [][TNext]_tvars

HighWater == IF l > TLCGet(7) THEN TLCSet(7, l) ELSE TRUE
Accepted == LET h == TLCGet(7) IN
            IF h = Len(Tr) + 1 THEN PrintT(<<"ACCEPTED", Len(Tr)>>) ELSE PrintT(<<"REJECTED", h>>)
=============================================================================
