-------------------------------- MODULE MC_Cli --------------------------------
(* Draws configurations of the converters field by field (random walks sample the cross product;
   the exhaustive run over the pairwise-reduced fields covers every path class). *)
EXTENDS Cli, Json
VARIABLES cfg, step
Fields == <<"stdin", "kind", "text", "threads", "parallel", "single", "inmem", "unc", "bs", "zooms", "style", "invoke", "bthreads", "binmem", "restrict">>
Dom(f) == CASE f = "stdin" -> {0, 1} [] f = "kind" -> {"bw", "bb"} [] f = "text" -> {1, 2, 3, 4}
            [] f = "threads" -> {1, 2, 6, 16} [] f = "parallel" -> {"auto", "yes", "no"} [] f = "single" -> {0, 1}
            [] f = "inmem" -> {0, 1} [] f = "unc" -> {0, 1} [] f = "bs" -> {0, 2, 5} [] f = "zooms" -> {0, 1}
            [] f = "style" -> {"native", "ucsc"} [] f = "invoke" -> {"own", "multicall", "mixedcase"}
            [] f = "bthreads" -> {1, 4} [] f = "binmem" -> {0, 1} [] f = "restrict" -> {"none", "chrom", "range", "start", "end"}
Init == cfg = <<>> /\ step = 1
Next == step <= Len(Fields) /\ \E v \in Dom(Fields[step]) : cfg' = Append(cfg, v) /\ step' = step + 1
Done == step > Len(Fields)
Rec == [stdin |-> cfg[1], kind |-> cfg[2], text |-> cfg[3], threads |-> cfg[4], parallel |-> cfg[5], single |-> cfg[6], inmem |-> cfg[7], unc |-> cfg[8],
        bs |-> cfg[9], zooms |-> cfg[10], style |-> cfg[11], invoke |-> cfg[12], bthreads |-> cfg[13], binmem |-> cfg[14], restrict |-> cfg[15]]
Emit == Done => PrintT(<<"REPLAY", ToJson([cfg |-> Rec, path |-> PathClass(Rec)])>>)
=============================================================================
