-------------------------------- MODULE MC_Cli --------------------------------
(* Draws configurations of the converters field by field (random walks sample the cross product;
   the exhaustive run over the pairwise-reduced fields covers every path class). *)
EXTENDS Cli, Json
VARIABLES cfg, step
Fields == <<"kind", "text", "threads", "parallel", "single", "inmem", "unc", "bs", "zooms", "style", "invoke", "bthreads", "binmem", "restrict">>
Dom(f) == CASE f = "kind" -> {"bw", "bb"} [] f = "text" -> {1, 2, 3}
            [] f = "threads" -> {1, 2, 6, 16} [] f = "parallel" -> {"auto", "yes", "no"} [] f = "single" -> {0, 1}
            [] f = "inmem" -> {0, 1} [] f = "unc" -> {0, 1} [] f = "bs" -> {0, 2, 5} [] f = "zooms" -> {0, 1}
            [] f = "style" -> {"native", "ucsc"} [] f = "invoke" -> {"own", "multicall", "mixedcase"}
            [] f = "bthreads" -> {1, 4} [] f = "binmem" -> {0, 1} [] f = "restrict" -> {"none", "chrom", "range", "start", "end"}
Init == cfg = <<>> /\ step = 1
Next == step <= Len(Fields) /\ \E v \in Dom(Fields[step]) : cfg' = Append(cfg, v) /\ step' = step + 1
Done == step > Len(Fields)
Rec == [kind |-> cfg[1], text |-> cfg[2], threads |-> cfg[3], parallel |-> cfg[4], single |-> cfg[5], inmem |-> cfg[6], unc |-> cfg[7],
        bs |-> cfg[8], zooms |-> cfg[9], style |-> cfg[10], invoke |-> cfg[11], bthreads |-> cfg[12], binmem |-> cfg[13], restrict |-> cfg[14]]
Emit == Done => PrintT(<<"REPLAY", ToJson([cfg |-> Rec, path |-> PathClass(Rec)])>>)
=============================================================================
