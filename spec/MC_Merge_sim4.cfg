CONSTANTS
  NS = 3
  MaxItems = 3
  W = 4
  Windows = 3
  Vals <- ValsB
  MinTotal = 4
INIT Init
NEXT Next
INVARIANTS MechOK Emit
CHECK_DEADLOCK FALSE
