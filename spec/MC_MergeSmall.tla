---------------------------- MODULE MC_MergeSmall ----------------------------
(* merge_into over ALL overlapping pairs on 0..N, and gap filling of all streams of <= 2 values on
   0..N with and without an explicit range.  One behaviour per initial state. *)
EXTENDS Merge, Json
CONSTANTS N
VARIABLES mode, a, b
ValsS == {-1, 0, 1, 2}
Iv == {<<s, e, v>> \in (0..N) \X (0..N) \X ValsS : s < e}
Streams == {<<>>} \cup {<<x>> : x \in Iv} \cup {<<x, y>> : x \in Iv, y \in {z \in Iv : z[3] # 0}} 
Init == \/ /\ mode = "into" /\ a \in Iv /\ b \in Iv /\ a[1] < b[2] /\ b[1] < a[2]
        \/ /\ mode = "fill" /\ a \in {st \in Streams : Len(st) < 2 \/ st[1][2] <= st[2][1]}
           /\ b \in {<<0, 0, 0>>} \cup {<<1, rs, re>> : rs \in {0, 2}, re \in {1, 3, N}}
Next == UNCHANGED <<mode, a, b>>
Emit == PrintT(<<"REPLAY", IF mode = "into" THEN ToJson([mode |-> mode, one |-> a, two |-> b])
                            ELSE ToJson([mode |-> mode, stream |-> a, hasRange |-> b[1], rs |-> b[2], re |-> b[3]])>>)
=============================================================================
