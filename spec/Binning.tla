-------------------------------- MODULE Binning --------------------------------
(* C20: the arrays returned by the Python `values` call (pybigtools).  Data of one chromosome of
   length Len: bigWig values <<start, end, v>> or bigBed entries <<start, end, id>>.  Outputs are
   carried as integers in millionths ("micro") with a NaN flag: <<micro, isnan>>.  Fill values
   (missing / oob) are integers, or NaN encoded as the pair <<0, 1>>. *)
EXTENDS BBICommon
Abs(x) == IF x < 0 THEN -x ELSE x
M == 1000000
NaNCode == 99          \* a fill value of 99 stands for NaN
Fill(f) == IF f = NaNCode THEN <<0, 1>> ELSE <<f * M, 0>>

\* value of the signal at base p: <<has, v>>
SignalAt(kind, items, p) ==
  IF kind = "bw" THEN (IF \E i \in 1..Len(items) : items[i][1] <= p /\ p < items[i][2]
                       THEN <<TRUE, items[CHOOSE i \in 1..Len(items) : items[i][1] <= p /\ p < items[i][2]][3]>> ELSE <<FALSE, 0>>)
  ELSE LET d == Cardinality({i \in 1..Len(items) : items[i][1] <= p /\ p < items[i][2]}) IN <<d > 0, d>>

\* per-base output (bins = none)
PerBaseOK(kind, items, len, s, e, missing, oob, out) ==
  /\ Len(out) = e - s
  /\ \A k \in 1..(e - s) :
       LET p == s + k - 1 IN
       out[k] = IF p < 0 \/ p >= len THEN Fill(oob)
                ELSE IF SignalAt(kind, items, p)[1] THEN <<SignalAt(kind, items, p)[2] * M, 0>> ELSE Fill(missing)

\* N bins of integral width w = (e - s) / N, exact mode
BinStatOK(kind, items, lo, hi, stat, missing, x) ==       \* x = <<micro, nan>>, span [lo, hi) inside the chromosome
  LET C == {p \in lo..(hi - 1) : SignalAt(kind, items, p)[1]}
      vals == {SignalAt(kind, items, p)[2] : p \in C}
      sum == SetSum({<<p, SignalAt(kind, items, p)[2]>> : p \in C}) IN
  IF C = {} THEN x = Fill(missing)
  ELSE /\ x[2] = 0
       /\ CASE stat = "mean" -> Abs(x[1] * Cardinality(C) - M * sum) <= Cardinality(C)
            [] stat = "min"  -> x[1] = M * SetMin(vals)
            [] stat = "max"  -> x[1] = M * SetMax(vals)
ExactBinsOK(kind, items, len, s, e, n, stat, missing, oob, out) ==
  LET w == (e - s) \div n IN
  /\ Len(out) = n
  /\ \A j \in 1..n :
       LET lo == s + (j - 1) * w
           hi == lo + w IN
       IF hi <= 0 \/ lo >= len THEN out[j] = Fill(oob)                                   \* wholly outside the chromosome
       ELSE IF lo >= 0 /\ hi <= len THEN BinStatOK(kind, items, lo, hi, stat, missing, out[j])   \* wholly inside
       ELSE out[j] = Fill(oob) \/ BinStatOK(kind, items, Max2(lo, 0), Min2(hi, len), stat, missing, out[j])   \* straddling: the statement is silent

\* any bin width: never NaN for finite data and finite fills; every bin within the data range, or a fill value
AnyWidthOK(kind, items, len, s, e, n, missing, oob, out) ==
  LET ps == {p \in Max2(s, 0)..(Min2(e, len) - 1) : SignalAt(kind, items, p)[1]}
      vals == {SignalAt(kind, items, p)[2] : p \in ps} IN
  /\ Len(out) = n
  /\ \A j \in 1..n :
       \/ out[j] = Fill(missing)
       \/ ((s < 0 \/ e > len) /\ out[j] = Fill(oob))
       \/ (vals # {} /\ out[j][2] = 0 /\ M * SetMin(vals) <= out[j][1] /\ out[j][1] <= M * SetMax(vals))

\* exact = False, the default of values(): bins are interpolated from the closest zoom level when one is coarse enough (to_array_zoom /
\* to_entry_array_zoom), otherwise computed as in exact mode.  The documentation fixes no numbers for this mode; what must hold of ANY
\* summary of the data: the call returns n bins, each is a fill value or lies within the range of the signal on the chromosome (for
\* bigBed the depth, which is 0 where nothing lies), and nothing is NaN when the data and the fill values are finite.
ZoomModeOK(kind, items, len, s, e, n, missing, oob, out) ==
  LET ps == {p \in 0..(len - 1) : SignalAt(kind, items, p)[1]}
      vals == {SignalAt(kind, items, p)[2] : p \in ps} \cup (IF kind = "bb" THEN {0} ELSE {}) IN
  /\ Len(out) = n
  /\ \A j \in 1..n :
       \/ out[j] = Fill(missing)
       \/ ((s < 0 \/ e > len) /\ out[j] = Fill(oob))
       \/ (vals # {} /\ out[j][2] = 0 /\ M * SetMin(vals) <= out[j][1] /\ out[j][1] <= M * SetMax(vals))
=============================================================================
