------------------------------ MODULE MC_BigWig ------------------------------
(* Enumerates every sorted, non-overlapping bedGraph layout within the bounds (dense, sparse,
   adjacent, zero-length, touching 0 and the chromosome end, one or several chromosomes), checks
   that the writer's mechanism satisfies the abstract properties (C01 / C06 / C07), and prints
   every complete layout as a behaviour to be replayed on the real writer and readers. *)
EXTENDS BigWigSpec, Json
CONSTANTS AnyOrder, MinItems, NC, L, MaxItems, MaxPerChrom, Vals, IPS, ZoomLists
VARIABLES input, cur, pos, nIn, done, ips, zl
vars == <<input, cur, pos, nIn, done, ips, zl>>
ZL == CASE ZoomLists = "a" -> {<<>>, <<2>>, <<3>>, <<2, 4>>}
        [] ZoomLists = "b" -> {<<2>>, <<3>>, <<2, 5>>, <<5, 2>>}     \* a manual list need not be ascending: the file lists its levels ascending
        [] ZoomLists = "c" -> {<<>>, <<2>>}
AscZ(z) == IF Len(z) = 2 /\ z[1] > z[2] THEN <<z[2], z[1]>> ELSE z
Sizes == [c \in 1..NC |-> L]

Init == /\ input = <<>> /\ cur = 0 /\ pos = 0 /\ nIn = 0 /\ done = FALSE
        /\ ips \in IPS /\ zl \in ZL
AddVal(s, e, v) ==
  /\ ~done /\ cur > 0 /\ Len(input) < MaxItems /\ nIn < MaxPerChrom
  /\ input' = Append(input, <<cur, s, e, v>>) /\ pos' = e /\ nIn' = nIn + 1
  /\ UNCHANGED <<cur, done, ips, zl>>
NextChrom(c) ==
  /\ ~done /\ (cur = 0 \/ nIn > 0) /\ Len(input) < MaxItems
  /\ cur' = c /\ pos' = 0 /\ nIn' = 0 /\ UNCHANGED <<input, done, ips, zl>>
Finish == /\ ~done /\ cur > 0 /\ nIn > 0 /\ Len(input) >= MinItems /\ done' = TRUE /\ UNCHANGED <<input, cur, pos, nIn, ips, zl>>
Next == \/ \E s \in pos..L : \E e \in s..L : \E v \in Vals : AddVal(s, e, v)
        \/ \E c \in (IF AnyOrder THEN (1..NC) \ {input[i][1] : i \in 1..Len(input)} ELSE (cur + 1)..NC) : NextChrom(c)
        \/ Finish

\* mechanism => abstract, at every complete input
MechRoundTrip == done => Flatten(Sections(input, ips)) = input
MechZoom == done => ZoomsOKW(input, Sizes, ModelZooms(input, AscZ(zl)))
Emit == done => PrintT(<<"REPLAY", ToJson([items |-> input, ips |-> ips, zooms |-> zl, NC |-> NC, L |-> L, sort |-> IF AnyOrder THEN "start" ELSE "all", mz |-> ModelZooms(input, AscZ(zl))])>>)
=============================================================================
