------------------------------ MODULE Obs_Filters ------------------------------
EXTENDS Filters, Json, IOUtils
Obs == ndJsonDeserialize(IOEnv.OBS)
VARIABLE x
Init == x = 0
Next == UNCHANGED x
InFile(o, r) == r[1] \in {o.chroms[i] : i \in 1..Len(o.chroms)}
Verdict(o) ==
  IF o.obs.parsed # 1 THEN "unparsable-output"
  ELSE CASE o.tool = "chromintersect" -> IF o.obs.rc # 0 THEN "tool-failed"
                                         ELSE IF ChromIntersect({o.chroms[i] : i \in 1..Len(o.chroms)}, o.regions, o.obs.kept) THEN "ok" ELSE "chromintersect"
         [] o.tool = "intersect" ->
              \* a region on a chromosome the file does not have is reported on stderr and skipped
              (IF o.obs.rc # 0 THEN "tool-failed"
               ELSE IF IntersectB(o.items, SelectSeq(o.regions, LAMBDA r : InFile(o, r)), o.obs.out) THEN "ok" ELSE "intersect")
         [] o.tool = "overlap-bb" -> IF o.obs.rc # 0 THEN "tool-failed" ELSE IF OverlapBedB(o.items, o.regions, o.obs.out) THEN "ok" ELSE "overlap-bed-bigbed"
         [] o.tool = "overlap-bw" -> IF o.obs.rc # 0 THEN "tool-failed" ELSE IF OverlapBedW(o.items, o.regions, o.obs.out) THEN "ok" ELSE "overlap-bed-bigwig"
Post == /\ \A i \in 1..Len(Obs) : LET v == Verdict(Obs[i]) IN (v = "ok" \/ PrintT(<<"BAD", i, v>>))
        /\ PrintT(<<"CHECKED", Len(Obs)>>)
=============================================================================
