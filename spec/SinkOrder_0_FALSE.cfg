CONSTANTS
  NZooms = 0
  IsBed = FALSE
  HeaderFirst = FALSE
SPECIFICATION Spec
INVARIANTS PrefixSafe Complete
CHECK_DEADLOCK FALSE
