------------------------------- MODULE MC_Binning -------------------------------
(* Requests of the Python `values` call drawn field by field: data set, range (also below 0 and past
   the chromosome end), bins (none, or 1..(e-s)), statistic, missing / oob fill values. *)
EXTENDS Binning, Json
CONSTANTS LenC
VARIABLES cfg, step
Fields == <<"kind", "ds", "s", "span", "bins", "stat", "missing", "oob", "exact", "arr">>
DataW(ds) == CASE ds = 1 -> << <<1, 3, 2>>, <<3, 4, 5>>, <<6, 9, 1>> >>
               [] ds = 2 -> << <<0, 2, 3>>, <<8, 10, 4>> >>
               [] ds = 3 -> << <<2, 8, 7>> >>
               [] ds = 4 -> << <<0, 2, 0>>, <<2, 3, -2>>, <<3, 4, 2>>, <<6, 8, -1>>, <<8, 9, 1>> >>      \* stored zeros, signed values that cancel
DataB(ds) == CASE ds = 1 -> << <<1, 6, 1>>, <<2, 4, 2>>, <<2, 4, 3>>, <<8, 9, 4>> >>
               [] ds = 2 -> << <<0, 10, 1>>, <<3, 3, 2>>, <<5, 7, 3>> >>
               [] ds = 3 -> << <<4, 6, 1>> >>
               [] ds = 4 -> << <<0, 1, 1>>, <<1, 2, 2>>, <<2, 10, 3>>, <<9, 10, 4>> >>                   \* abutting entries, one reaching the chromosome end
Dom(f) == CASE f = "kind" -> {"bw", "bb"} [] f = "ds" -> {1, 2, 3, 4}
            [] f = "s" -> (-2)..(LenC - 1) [] f = "span" -> 1..(LenC + 3)
            [] f = "bins" -> 0..(LenC + 3)             \* 0 = per-base output
            [] f = "exact" -> {1, 1, 0}     \* 0: the default mode of values(): bins interpolated from the closest zoom level when one is coarse enough
            [] f = "arr" -> {0, 1}          \* 1: the caller supplies a (dirty, reused) output array
            [] f = "stat" -> {"mean", "min", "max"} [] f = "missing" -> {0, -1, 1, 2, 5, 99} [] f = "oob" -> {0, -1, 5, 99}      \* (1 and 2: fill values that are also plausible depths)
Init == cfg = <<>> /\ step = 1
Next == /\ step <= Len(Fields)
        /\ \E v \in Dom(Fields[step]) :
             /\ (Fields[step] = "bins" => v <= cfg[4])               \* at most one bin per base
             /\ cfg' = Append(cfg, v)
        /\ step' = step + 1
Done == step > Len(Fields)
Emit == (Done /\ cfg[3] + cfg[4] <= LenC + 2) =>
          PrintT(<<"REPLAY", ToJson([kind |-> cfg[1], ds |-> cfg[2], items |-> IF cfg[1] = "bw" THEN DataW(cfg[2]) ELSE DataB(cfg[2]), len |-> LenC,
                                     s |-> cfg[3], e |-> cfg[3] + cfg[4], bins |-> cfg[5], stat |-> cfg[6], missing |-> cfg[7], oob |-> cfg[8], exact |-> cfg[9], arr |-> cfg[10]])>>)
=============================================================================
