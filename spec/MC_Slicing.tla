------------------------------ MODULE MC_Slicing ------------------------------
(* Every small chromosome-grouped file: <= MaxRuns runs x 1..3 lines x {short, long} line lengths x
   with/without final newline.  Checks mechanism => abstract for the indexer and the chunker (all
   chunk counts 1..lines+2) and emits each file as a behaviour. *)
EXTENDS Slicing, Json
CONSTANTS MaxRuns, Short, LongL
VARIABLES lines, fin
RunLens == UNION {[1..k -> {Short, LongL}] : k \in 1..3}
Files(r) == [1..r -> RunLens]
Flat(runs) == LET F[k \in 0..Len(runs)] == IF k = 0 THEN <<>> ELSE F[k - 1] \o [i \in 1..Len(runs[k]) |-> <<k, runs[k][i]>>] IN F[Len(runs)]
Init == /\ \E r \in 1..MaxRuns : \E runs \in Files(r) : lines = Flat(runs)
        /\ fin \in {0, 1}
Next == UNCHANGED <<lines, fin>>
\* without the final newline the last line is one byte shorter
Real == IF fin = 1 THEN lines ELSE [lines EXCEPT ![Len(lines)] = <<@[1], @[2] - 1>>]
IndexOK == IndexExact(Real, IndexMech(Real))
ChunkOK == \A n \in 1..(Len(Real) + 2) : ChunksOK(Real, ChunksMech(Real, n))
Emit == PrintT(<<"REPLAY", ToJson([lines |-> Real, fin |-> fin])>>)
=============================================================================
