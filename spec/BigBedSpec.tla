----------------------------- MODULE BigBedSpec -----------------------------
(* bigBed writer + reader: abstract layer (oracles of C02 / C04 / C06 / C08).  An entry is
   <<chrom, start, end, id>> where id identifies the rest-of-line text (its 1-based position in
   the input), so "the same entries in input order" is sequence equality even for duplicates. *)
EXTENDS BBICommon

HasZeroZero(items) == \E i \in 1..Len(items) : Start(items[i]) = 0 /\ End(items[i]) = 0   \* F11 class

ChromTableOK(items, sizes, table) == table = Map(LAMBDA c : <<c, sizes[c]>>, ChromsOf(items))
WithIds(items) == [i \in 1..Len(items) |-> <<items[i][1], items[i][2], items[i][3], i>>]

(* ------------------------------ C02 ------------------------------------ *)
RoundTripOK(items, sizes, o) ==
  /\ o.result = "ok" /\ o.readok = 1
  /\ ChromTableOK(items, sizes, o.chroms)
  /\ o.read = WithIds(items)
  /\ o.count = Len(items)

(* ------------------------------ C04 ------------------------------------ *)
Stored(items, c) == Map(LAMBDA it : <<it[2], it[3], it[4]>>, SelectSeq(WithIds(items), LAMBDA it : it[1] = c))
Required(st, s, e) == SelectSeq(st, LAMBDA x : x[1] < x[2] /\ x[1] < e /\ x[2] > s)
Allowed(st, s, e) == SelectSeq(st, LAMBDA x : x[2] >= s /\ x[1] <= e)
EntryQueryOK(st, s, e, res) == IsSubseq(Required(st, s, e), res) /\ IsSubseq(res, Allowed(st, s, e))

(* ------------------------------ C06 ------------------------------------ *)
CoveredSet(items) == {b \in 0..(MaxEnd(items) - 1) : Depth(items, b) > 0}
RECURSIVE SummaryParts(_, _)
\* per-chromosome statistics of the depth function, combined over chromosomes
SummaryParts(items, cs) ==
  IF cs = <<>> THEN <<>>
  ELSE LET its == ItemsOf(items, Head(cs))
           S == CoveredSet(its) IN
       (IF S = {} THEN <<>> ELSE <<Stats(S, LAMBDA b : Depth(its, b))>>) \o SummaryParts(items, Tail(cs))
SummaryOKB(items, sm) ==
  LET parts == SummaryParts(items, ChromsOf(items)) IN
  /\ sm.bases = SeqSum(Map(LAMBDA p : p.bases, parts))
  /\ (parts # <<>> =>
        /\ sm.sum = SeqSum(Map(LAMBDA p : p.sum, parts))
        /\ sm.sumsq = SeqSum(Map(LAMBDA p : p.sumsq, parts))
        /\ sm.min = SetMin({p.min : p \in Range(parts)})
        /\ sm.max = SetMax({p.max : p \in Range(parts)}))

(* ------------------------------ C08 ------------------------------------ *)
ZoomLevelOKB(items, lvl) ==
  \A c \in Range(ChromsOf(items)) :
     LET its == ItemsOf(items, c)
         recs == SelectSeq(lvl.recs, LAMBDA r : r[1] = c) IN
     ZoomFaithful(c, MaxEnd(its), lvl.res, recs, LAMBDA b : Depth(its, b) > 0, LAMBDA b : Depth(its, b))
ZoomsOKB(items, zooms) ==
  /\ LevelsIncreasing(Map(LAMBDA z : z.res, zooms))
  /\ \A k \in 1..Len(zooms) : /\ ZoomLevelOKB(items, zooms[k])
                              /\ \A i \in 1..Len(zooms[k].recs) : zooms[k].recs[i][1] \in Range(ChromsOf(items))
                              /\ \A i \in 2..Len(zooms[k].recs) : zooms[k].recs[i-1][1] <= zooms[k].recs[i][1]
=============================================================================
