----------------------------- MODULE BigBedSpec -----------------------------
(* bigBed writer + reader: abstract layer (oracles of C02 / C04 / C06 / C08).  An entry is
   <<chrom, start, end, id>> where id identifies the rest-of-line text (its 1-based position in
   the input), so "the same entries in input order" is sequence equality even for duplicates. *)
EXTENDS BBICommon
RECURSIVE FlattenB(_)
FlattenB(ss) == IF ss = <<>> THEN <<>> ELSE Head(ss) \o FlattenB(Tail(ss))

HasZeroZero(items) == \E i \in 1..Len(items) : Start(items[i]) = 0 /\ End(items[i]) = 0   \* F11 class

ChromTableOK(items, sizes, table) == table = Map(LAMBDA c : <<c, sizes[c]>>, ChromsOf(items))
WithIds(items) == [i \in 1..Len(items) |-> <<items[i][1], items[i][2], items[i][3], i>>]

(* ------------------------------ C02 ------------------------------------ *)
RoundTripOK(items, sizes, o) ==
  /\ o.result = "ok" /\ o.readok = 1
  /\ ChromTableOK(items, sizes, o.chroms)
  /\ o.read = WithIds(items)
  /\ o.count = Len(items)

(* ------------------------------ C04 ------------------------------------ *)
Stored(items, c) == Map(LAMBDA it : <<it[2], it[3], it[4]>>, SelectSeq(WithIds(items), LAMBDA it : it[1] = c))
Required(st, s, e) == SelectSeq(st, LAMBDA x : x[1] < x[2] /\ x[1] < e /\ x[2] > s)
Allowed(st, s, e) == SelectSeq(st, LAMBDA x : x[2] >= s /\ x[1] <= e)
EntryQueryOK(st, s, e, res) == IsSubseq(Required(st, s, e), res) /\ IsSubseq(res, Allowed(st, s, e))

(* ------------------------------ C06 ------------------------------------ *)
CoveredSet(items) == {b \in 0..(MaxEnd(items) - 1) : Depth(items, b) > 0}
RECURSIVE SummaryParts(_, _)
\* per-chromosome statistics of the depth function, combined over chromosomes
SummaryParts(items, cs) ==
  IF cs = <<>> THEN <<>>
  ELSE LET its == ItemsOf(items, Head(cs))
           S == CoveredSet(its) IN
       (IF S = {} THEN <<>> ELSE <<Stats(S, LAMBDA b : Depth(its, b))>>) \o SummaryParts(items, Tail(cs))
SummaryOKB(items, sm) ==
  LET parts == SummaryParts(items, ChromsOf(items)) IN
  /\ sm.bases = SeqSum(Map(LAMBDA p : p.bases, parts))
  /\ (parts # <<>> =>
        /\ sm.sum = SeqSum(Map(LAMBDA p : p.sum, parts))
        /\ sm.sumsq = SeqSum(Map(LAMBDA p : p.sumsq, parts))
        /\ sm.min = SetMin({p.min : p \in Range(parts)})
        /\ sm.max = SetMax({p.max : p \in Range(parts)}))

(* ------------------------------ C08 ------------------------------------ *)
ZoomLevelOKB(items, lvl) ==
  \A c \in Range(ChromsOf(items)) :
     LET its == ItemsOf(items, c)
         recs == SelectSeq(lvl.recs, LAMBDA r : r[1] = c) IN
     ZoomFaithful(c, MaxEnd(its), lvl.res, recs, LAMBDA b : Depth(its, b) > 0, LAMBDA b : Depth(its, b))
ZoomsOKB(items, zooms) ==
  /\ LevelsIncreasing(Map(LAMBDA z : z.res, zooms))
  /\ \A k \in 1..Len(zooms) : /\ ZoomLevelOKB(items, zooms[k])
                              /\ \A i \in 1..Len(zooms[k].recs) : zooms[k].recs[i][1] \in Range(ChromsOf(items))
                              /\ GroupedByChrom(zooms[k].recs)

(* --------------------------- mechanism --------------------------------- *)
(* The sweep line of the bigBed writer (add_interval_to_summary / process_val_zoom): `ov` is the list
   of depth segments <<start, end, depth>> still open, contiguous from its first start.  Per entry:
   (1) every segment from the front gains depth 1 until one reaches past the entry's end (it is split
   there), (2) the part of the entry beyond the last segment becomes a new depth-1 segment, (3) everything
   before the next entry's start is final and is emitted.  The summary adds up emitted pieces of positive
   length; each zoom level tiles them (BBICommon!TileSeg); at the last entry of a chromosome every emitted
   piece closes the live record. *)
Inf == 1000000
RECURSIVE IncSegs(_, _)
IncSegs(ov, e) ==
  IF ov = <<>> THEN <<>>
  ELSE LET h == Head(ov) IN
       IF e < h[2] THEN << <<h[1], e, h[3] + 1>>, <<e, h[2], h[3]>> >> \o Tail(ov)
       ELSE << <<h[1], h[2], h[3] + 1>> >> \o IncSegs(Tail(ov), e)
WithTail(ov, s, e) == IF ov = <<>> THEN << <<s, e, 1>> >>
                      ELSE IF Last(ov)[2] < e THEN Append(ov, <<Last(ov)[2], e, 1>>) ELSE ov
RECURSIVE FlushR(_, _, _)
FlushR(ov, ns, acc) ==       \* <<emitted pieces, remaining list>>
  IF ov = <<>> \/ Head(ov)[1] >= ns THEN <<acc, ov>>
  ELSE LET h == Head(ov) IN
       IF h[2] <= ns THEN FlushR(Tail(ov), ns, Append(acc, h))
       ELSE <<Append(acc, <<h[1], ns, h[3]>>), << <<ns, h[2], h[3]>> >> \o Tail(ov)>>
SweepStep(ov, s, e, ns) == FlushR(WithTail(IncSegs(ov, e), s, e), ns, <<>>)
\* all pieces emitted for the entries of one chromosome, grouped per entry: << <<pieces>>, ... >>
RECURSIVE SweepAll(_, _, _)
SweepAll(its, k, ov) ==
  IF k > Len(its) THEN <<>>
  ELSE LET ns == IF k < Len(its) THEN its[k + 1][2] ELSE Inf
           r == SweepStep(ov, its[k][2], its[k][3], ns) IN
       <<r[1]>> \o SweepAll(its, k + 1, r[2])
\* summary of one chromosome: statistics over emitted pieces of positive length (<<>> if none)
PiecesOf(its) == SelectSeq(FlattenB(SweepAll(its, 1, <<>>)), LAMBDA p : p[2] > p[1])
MechChromSummary(its) ==
  LET ps == PiecesOf(its) IN
  IF ps = <<>> THEN <<>>
  ELSE << [bases |-> SeqSum(Map(LAMBDA p : p[2] - p[1], ps)), sum |-> SeqSum(Map(LAMBDA p : (p[2] - p[1]) * p[3], ps)),
           sumsq |-> SeqSum(Map(LAMBDA p : (p[2] - p[1]) * p[3] * p[3], ps)),
           min |-> SetMin({p[3] : p \in Range(ps)}), max |-> SetMax({p[3] : p \in Range(ps)})] >>
RECURSIVE MechParts(_, _)
MechParts(items, cs) == IF cs = <<>> THEN <<>> ELSE MechChromSummary(ItemsOf(items, Head(cs))) \o MechParts(items, Tail(cs))
MechSummary(items) ==
  LET parts == MechParts(items, ChromsOf(items)) IN
  IF parts = <<>> THEN [bases |-> 0, sum |-> 0, sumsq |-> 0, min |-> 0, max |-> 0, int |-> 1]
  ELSE [bases |-> SeqSum(Map(LAMBDA p : p.bases, parts)), sum |-> SeqSum(Map(LAMBDA p : p.sum, parts)),
        sumsq |-> SeqSum(Map(LAMBDA p : p.sumsq, parts)), min |-> SetMin({p.min : p \in Range(parts)}),
        max |-> SetMax({p.max : p \in Range(parts)}), int |-> 1]
\* zoom records of one chromosome at resolution r
RECURSIVE TilePieces(_, _, _, _, _, _)
TilePieces(c, r, live, recs, ps, closeEach) ==     \* returns <<live, recs>>
  IF ps = <<>> THEN <<live, recs>>
  ELSE LET t == TileSeg(c, r, live, recs, Head(ps)[1], Head(ps), Head(ps)[1])
           cl == closeEach /\ t[1][1] IN
       TilePieces(c, r, IF cl THEN NoLive ELSE t[1],
                  IF cl THEN Append(t[2], <<c, t[1][2], t[1][3], t[1][4], t[1][5], t[1][6], t[1][7], t[1][8]>>) ELSE t[2],
                  Tail(ps), closeEach)
RECURSIVE ZoomFold(_, _, _, _, _, _)
ZoomFold(c, r, groups, k, live, recs) ==
  IF k > Len(groups) THEN recs
  ELSE LET t == TilePieces(c, r, live, recs, groups[k], k = Len(groups)) IN ZoomFold(c, r, groups, k + 1, t[1], t[2])
ZoomRecsB(items, c, r) == ZoomFold(c, r, SweepAll(ItemsOf(items, c), 1, <<>>), 1, NoLive, <<>>)
RECURSIVE ZoomRecsAllB(_, _, _)
ZoomRecsAllB(items, cs, r) == IF cs = <<>> THEN <<>> ELSE ZoomRecsB(items, Head(cs), r) \o ZoomRecsAllB(items, Tail(cs), r)
ModelZoomsB(items, zl) == [k \in 1..Len(zl) |-> [res |-> zl[k], recs |-> ZoomRecsAllB(items, ChromsOf(items), zl[k])]]
=============================================================================
