------------------------------ MODULE Obs_BigBed ------------------------------
EXTENDS BigBedSpec, Json, IOUtils
Obs == ndJsonDeserialize(IOEnv.OBS)
Prop == IOEnv.PROP
VARIABLE x
Init == x = 0
Next == UNCHANGED x
Bed3 == "table bed\n\"Browser Extensible Data\"\n(\n    string chrom;       \"Reference sequence chromosome or scaffold\"\n    uint   chromStart;  \"Start position in chromosome\"\n    uint   chromEnd;    \"End position in chromosome\"\n)"

V02(o) == IF o.obs.result # "ok" THEN "not-ok"
          ELSE IF "generic" \in DOMAIN o.obs /\ (o.obs.generic.kind # "bb" \/ o.obs.generic.chroms # o.obs.chroms) THEN "generic-open"
          ELSE IF o.obs.readok # 1 /\ HasZeroZero(o.items) THEN "known:F11"
          ELSE IF o.obs.readok # 1 THEN "read-error"
          ELSE IF ~ChromTableOK(o.items, o.chroms, o.obs.chroms) THEN "chromtable"
          ELSE IF o.obs.read # WithIds(o.items) THEN "roundtrip"
          ELSE IF o.obs.count # Len(o.items) THEN "count"
          ELSE IF o.obs.autosql # o.asq THEN "autosql"
          ELSE "ok"

QBad(o, q) == q.err = 1 \/ ~EntryQueryOK(Stored(o.items, q.c), q.s, q.e, q.iv)
V04(o) == IF o.obs.result # "ok" THEN "not-ok"
          ELSE IF o.obs.unmapped = 1 THEN "coordinate-not-from-input"
          ELSE IF \E k \in 1..Len(o.obs.queries) : QBad(o, o.obs.queries[k])
               THEN (IF HasZeroZero(o.items) /\ \A k \in 1..Len(o.obs.queries) : (QBad(o, o.obs.queries[k]) => o.obs.queries[k].err = 1)
                     THEN "known:F11" ELSE "entry-query")
          ELSE "ok"

V06(o) == IF o.obs.result # "ok" THEN "not-ok"
          ELSE IF o.obs.summary.int # 1 THEN "summary-not-integral"
          ELSE IF ~SummaryOKB(o.items, o.obs.summary) THEN "summary"
          ELSE IF o.obs.count # Len(o.items) THEN "count"
          ELSE "ok"

ZQBad(o, q) ==
  LET lv == CHOOSE z \in Range(o.obs.zooms) : z.res = q.res
      recs2 == Map(LAMBDA r : <<r[2], r[3]>>, SelectSeq(lv.recs, LAMBDA r : r[1] = q.c))
  IN ~ZoomQueryOK(recs2, q.s, q.e, q.recs)
V08(o) == IF o.obs.result # "ok" THEN "not-ok"
          ELSE IF o.obs.unmapped = 1 THEN "coordinate-not-from-input"
          ELSE IF o.obs.zint # 1 THEN "zoom-not-integral"
          ELSE IF ~ZoomsOKB(o.items, o.obs.zooms) THEN "zoom-records"
          ELSE IF \E k \in 1..Len(o.obs.zqueries) : ZQBad(o, o.obs.zqueries[k]) THEN "zoom-query"
          ELSE "ok"

Verdict(o) == CASE Prop = "C02" -> V02(o) [] Prop = "C04" -> V04(o) [] Prop = "C06" -> V06(o) [] Prop = "C08" -> V08(o)
\* drift: the real tiling / summary differs from the mechanism layer although the abstract predicate holds
Drift(o) == \/ (Prop = "C08" /\ o.obs.result = "ok" /\ o.opts.zmode = "manual" /\ o.scale = 1 /\ "nomech" \notin DOMAIN o /\ o.obs.zooms # o.mz)
            \/ (Prop = "C06" /\ o.obs.result = "ok" /\ o.obs.summary.int = 1 /\ o.obs.summary.bases > 0
                /\ [f \in {"bases", "sum", "sumsq", "min", "max"} |-> o.obs.summary[f]] # [f \in {"bases", "sum", "sumsq", "min", "max"} |-> o.msum[f]])
Post == /\ \A i \in 1..Len(Obs) : LET v == Verdict(Obs[i]) IN
                                  /\ (v = "ok" \/ PrintT(<<"BAD", i, v>>))
                                  /\ (~Drift(Obs[i]) \/ PrintT(<<"DRIFT", i>>))
        /\ PrintT(<<"CHECKED", Len(Obs)>>)
=============================================================================
