CONSTANTS
  AnyOrder = FALSE
  MinItems = 5
  NC = 2
  L = 12
  MaxItems = 8
  MaxPerChrom = 7
  Vals = {1, 2, 3}
  IPS = {1, 2}
  ZoomLists = "a"
INIT Init
NEXT Next
INVARIANTS MechRoundTrip MechZoom Emit
CHECK_DEADLOCK FALSE
