-------------------------------- MODULE Pipeline --------------------------------
(* C11: the per-chromosome write pipeline of bbiwrite.rs (write_vals / write_data /
   write_chroms_with(out)_zooms / future_channel) with one TempFileBuffer per chromosome.
     Source    : sets chromosomes up in order (at most Window being parsed at a time: the parallel
                 source keeps <= 5 queued), spawns one encode task per section and sends its handle
                 through a bounded channel (back-pressure)
     EncDone   : encode tasks complete in ANY order
     WriteSection / WriteEnd : write_data[k] consumes the handles in submission order and writes
                 through TempFileBuffer[k] (update() = mailbox swap, staging or migration)
     Owner     : for k in order: recv -> switch(file) -> await write task -> await_real_file
   Property Deterministic: in EVERY behaviour the destination ends up as the concatenation of all
   sections in (chromosome, section) order -- the bytes do not depend on the schedule. *)
EXTENDS Naturals, Sequences, FiniteSets, TLC
CONSTANTS NChrom, Secs, Window, ChanCap      \* Secs[k]: number of sections (buffer writes) of chromosome k

None == <<>>   Some(x) == <<x>>   IsSome(o) == Len(o) = 1   Get(o) == o[1]
K == 1..NChrom
J(k) == 1..Secs[k]

VARIABLES
  started,   \* set of chromosomes whose processing has been set up (in order)
  queued,    \* queued[k] = number of sections whose encode task has been spawned and handle sent
  srcDone,   \* srcDone[k]: processor dropped (sender closed)
  chan,      \* chan[k]: sequence of section indices (handles) in flight
  enc,       \* enc[k][j] \in {"none","running","done"}
  wdone,     \* wdone[k]: write_data task finished (writer half dropped)
  bstate, staged, pdest, mailbox, closed,   \* TempFileBuffer[k]
  ownerq,    \* tuples sent to the owner, in order
  opc, ok_,  \* owner pc \in {"recv","switch","task","file","end"}, current chromosome
  file       \* Option(destination bytes) held by the owner
vars == <<started, queued, srcDone, chan, enc, wdone, bstate, staged, pdest, mailbox, closed, ownerq, opc, ok_, file>>

Init ==
  /\ started = {} /\ queued = [k \in K |-> 0] /\ srcDone = [k \in K |-> FALSE]
  /\ chan = [k \in K |-> <<>>] /\ enc = [k \in K |-> [j \in J(k) |-> "none"]] /\ wdone = [k \in K |-> FALSE]
  /\ bstate = [k \in K |-> "NotStarted"] /\ staged = [k \in K |-> <<>>] /\ pdest = [k \in K |-> None]
  /\ mailbox = [k \in K |-> None] /\ closed = [k \in K |-> None]
  /\ ownerq = <<>> /\ opc = "recv" /\ ok_ = 0 /\ file = Some(<<>>)

InFlight == {k \in started : ~srcDone[k]}

\* source sets up chromosome k (in order), at most Window chromosomes being parsed
Setup(k) ==
  /\ k \notin started /\ (k = 1 \/ (k - 1) \in started) /\ Cardinality(InFlight) < Window
  /\ started' = started \cup {k} /\ ownerq' = Append(ownerq, k)
  /\ UNCHANGED <<queued, srcDone, chan, enc, wdone, bstate, staged, pdest, mailbox, closed, opc, ok_, file>>

Queue(k) ==
  /\ k \in started /\ ~srcDone[k] /\ queued[k] < Secs[k] /\ Len(chan[k]) <= ChanCap
  /\ LET j == queued[k] + 1 IN
     /\ enc' = [enc EXCEPT ![k][j] = "running"] /\ chan' = [chan EXCEPT ![k] = Append(@, j)]
     /\ queued' = [queued EXCEPT ![k] = j]
  /\ UNCHANGED <<started, srcDone, wdone, bstate, staged, pdest, mailbox, closed, ownerq, opc, ok_, file>>

SrcFinish(k) ==
  /\ k \in started /\ ~srcDone[k] /\ queued[k] = Secs[k]
  /\ srcDone' = [srcDone EXCEPT ![k] = TRUE]
  /\ UNCHANGED <<started, queued, chan, enc, wdone, bstate, staged, pdest, mailbox, closed, ownerq, opc, ok_, file>>

EncDone(k, j) ==
  /\ enc[k][j] = "running" /\ enc' = [enc EXCEPT ![k][j] = "done"]
  /\ UNCHANGED <<started, queued, srcDone, chan, wdone, bstate, staged, pdest, mailbox, closed, ownerq, opc, ok_, file>>

\* write_data[k]: take the head handle once its task is done; write through the buffer (update + append)
WriteSection(k) ==
  /\ ~wdone[k] /\ Len(chan[k]) > 0 /\ enc[k][Head(chan[k])] = "done"
  /\ LET b == <<k, Head(chan[k])>>  got == mailbox[k] IN
     /\ mailbox' = [mailbox EXCEPT ![k] = None]
     /\ IF bstate[k] = "Real" THEN pdest' = [pdest EXCEPT ![k] = Some(Append(Get(@), b))] /\ UNCHANGED <<bstate, staged>>
        ELSE IF IsSome(got) THEN /\ bstate' = [bstate EXCEPT ![k] = "Real"]
                                 /\ pdest' = [pdest EXCEPT ![k] = Some(Append(Get(got) \o staged[k], b))]
                                 /\ staged' = [staged EXCEPT ![k] = <<>>]
        ELSE bstate' = [bstate EXCEPT ![k] = "Staged"] /\ staged' = [staged EXCEPT ![k] = Append(@, b)] /\ UNCHANGED pdest
  /\ chan' = [chan EXCEPT ![k] = Tail(@)]
  /\ UNCHANGED <<started, queued, srcDone, enc, wdone, closed, ownerq, opc, ok_, file>>

WriteEnd(k) ==
  /\ k \in started /\ ~wdone[k] /\ Len(chan[k]) = 0 /\ srcDone[k]
  /\ wdone' = [wdone EXCEPT ![k] = TRUE]
  /\ closed' = [closed EXCEPT ![k] = Some([st |-> bstate[k], staged |-> staged[k], dest |-> pdest[k]])]
  /\ UNCHANGED <<started, queued, srcDone, chan, enc, bstate, staged, pdest, mailbox, ownerq, opc, ok_, file>>

ORecv ==
  /\ opc = "recv" /\ Len(ownerq) > 0
  /\ ok_' = Head(ownerq) /\ ownerq' = Tail(ownerq) /\ opc' = "switch"
  /\ UNCHANGED <<started, queued, srcDone, chan, enc, wdone, bstate, staged, pdest, mailbox, closed, file>>
OSwitch ==
  /\ opc = "switch" /\ mailbox' = [mailbox EXCEPT ![ok_] = file] /\ file' = None /\ opc' = "task"
  /\ UNCHANGED <<started, queued, srcDone, chan, enc, wdone, bstate, staged, pdest, closed, ownerq, ok_>>
OTask ==
  /\ opc = "task" /\ wdone[ok_] /\ opc' = "file"
  /\ UNCHANGED <<started, queued, srcDone, chan, enc, wdone, bstate, staged, pdest, mailbox, closed, ownerq, ok_, file>>
OFile ==
  /\ opc = "file" /\ IsSome(closed[ok_])
  /\ LET got == mailbox[ok_]  c == Get(closed[ok_]) IN
     /\ mailbox' = [mailbox EXCEPT ![ok_] = None]
     /\ file' = IF IsSome(got) THEN Some(Get(got) \o c.staged) ELSE c.dest
  /\ opc' = "recv"
  /\ UNCHANGED <<started, queued, srcDone, chan, enc, wdone, bstate, staged, pdest, closed, ownerq, ok_>>
OEnd ==
  /\ opc = "recv" /\ Len(ownerq) = 0 /\ started = K /\ \A k \in K : srcDone[k]
  /\ opc' = "end"
  /\ UNCHANGED <<started, queued, srcDone, chan, enc, wdone, bstate, staged, pdest, mailbox, closed, ownerq, ok_, file>>

Next == \/ \E k \in K : Setup(k) \/ Queue(k) \/ SrcFinish(k) \/ WriteSection(k) \/ WriteEnd(k)
        \/ \E k \in K : \E j \in J(k) : EncDone(k, j)
        \/ ORecv \/ OSwitch \/ OTask \/ OFile \/ OEnd
Spec == Init /\ [][Next]_vars /\ WF_vars(Next)

RECURSIVE Expected(_)
Expected(k) == IF k = 0 THEN <<>> ELSE Expected(k - 1) \o [j \in J(k) |-> <<k, j>>]
Deterministic == opc = "end" => file = Some(Expected(NChrom))
NoStuck == (ENABLED Next) \/ opc = "end"
Terminates == <>(opc = "end")
=============================================================================
