CONSTANTS
  K = 3
  MutStride = 4
INIT Init
NEXT Next
INVARIANT Emit
CHECK_DEADLOCK FALSE
