CONSTANTS
  NZooms = 1
  IsBed = TRUE
  HeaderFirst = FALSE
SPECIFICATION Spec
INVARIANTS PrefixSafe Complete
CHECK_DEADLOCK FALSE
