CONSTANTS
  Kind = "bb"
  Items <- FileItems
  Fanout = 2
  CacheCap = 2
  Queries <- AllQ
  ZRecs <- NoZ
  MaxSteps = 3
  FileId = 4
INIT MCInit
NEXT MCNext
INVARIANTS HistoryIndependent ZoomHistoryIndependent CacheCoherent Emit
CHECK_DEADLOCK FALSE
