------------------------------ MODULE Obs_Format ------------------------------
(* C09: every line = one file written by the real writers, decoded by the independent codec. *)
EXTENDS BBIFormat, Json, IOUtils
W == INSTANCE BigWigSpec
B == INSTANCE BigBedSpec
Obs == ndJsonDeserialize(IOEnv.OBS)
VARIABLE x
Init == x = 0
Next == UNCHANGED x
Flat9(ss) == FlatR(ss)
Records(img) == Flat9(Map(LAMBDA b : b.items, img.blocks))
ZoomLevels(img) == Map(LAMBDA z : [res |-> z.reduction, recs |-> Flat9(Map(LAMBDA b : b.items, z.blocks))], img.zooms)
Verdict(o) ==
  IF o.result # "ok" THEN "write-failed"
  ELSE LET why == WhyNot(o.img, o.kind, ChromsOf(o.items), o.chroms, TRUE) IN
  IF why # "ok" THEN why
  ELSE IF o.kind = "bw" THEN
       IF Records(o.img) # o.items THEN "records"
       ELSE IF o.img.summary.int # 1 \/ ~W!SummaryOKW(o.items, o.img.summary) THEN "summary"
       ELSE IF o.img.zint # 1 \/ ~W!ZoomsOKW(o.items, o.chroms, ZoomLevels(o.img)) THEN "zoom-records"
       ELSE "ok"
  ELSE IF Records(o.img) # B!WithIds(o.items) THEN "records"
       ELSE IF o.img.dataCount # Len(o.items) THEN "count"
       ELSE IF o.img.summary.int # 1 \/ ~B!SummaryOKB(o.items, o.img.summary) THEN "summary"
       ELSE IF o.img.zint # 1 \/ ~B!ZoomsOKB(o.items, ZoomLevels(o.img)) THEN "zoom-records"
       ELSE "ok"
Post == /\ \A i \in 1..Len(Obs) : LET v == Verdict(Obs[i]) IN (v = "ok" \/ PrintT(<<"BAD", i, v>>))
        /\ PrintT(<<"CHECKED", Len(Obs)>>)
=============================================================================
