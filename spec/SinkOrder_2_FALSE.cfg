CONSTANTS
  NZooms = 2
  IsBed = FALSE
  HeaderFirst = FALSE
SPECIFICATION Spec
INVARIANTS PrefixSafe Complete
CHECK_DEADLOCK FALSE
