CONSTANTS
  NZooms = 2
  IsBed = FALSE
  HeaderFirst = FALSE
  Stale = FALSE
  SkipBlank = FALSE
SPECIFICATION Spec
INVARIANTS PrefixSafe Complete
CHECK_DEADLOCK FALSE
