-------------------------------- MODULE Obs_Det --------------------------------
(* C11 on observed executions: every run of the same (input, format options) -- whatever the thread
   count, runtime flavour, channel capacity, staging mode, source kind and injected delays -- must
   succeed and produce the same bytes (digest of the whole output). *)
EXTENDS Naturals, Sequences, FiniteSets, TLC, Json, IOUtils
Obs == ndJsonDeserialize(IOEnv.OBS)
VARIABLE x
Init == x = 0
Next == UNCHANGED x
Verdict(o) ==
  IF o.obs.result # "ok" THEN "harness-failed"
  ELSE IF \E i \in 1..Len(o.obs.runs) : o.obs.runs[i].ok # 1 THEN "a-run-failed"
  ELSE IF \E i \in 1..Len(o.obs.runs) : o.obs.runs[i].digest # o.obs.runs[1].digest THEN "bytes-depend-on-configuration-or-timing"
  ELSE "ok"
Post == /\ \A i \in 1..Len(Obs) : LET v == Verdict(Obs[i]) IN (v = "ok" \/ PrintT(<<"BAD", i, v>>))
        /\ PrintT(<<"CHECKED", Len(Obs)>>)
=============================================================================
