CONSTANTS
  Kind = "bb"
  DS = 2
INIT Init
NEXT Next
INVARIANT Emit
CHECK_DEADLOCK FALSE
