------------------------------ MODULE Obs_Merge ------------------------------
EXTENDS Merge, Json, IOUtils
Obs == ndJsonDeserialize(IOEnv.OBS)
VARIABLE x
Init == x = 0
Next == UNCHANGED x
\* merge tool: per chromosome, the tool's output over the inputs that have the chromosome
\* input i is given o.mult[i] times
RECURSIVE Expand(_, _, _)
Expand(inputs, mult, i) == IF i > Len(inputs) THEN <<>> ELSE [k \in 1..mult[i] |-> inputs[i]] \o Expand(inputs, mult, i + 1)
StreamsOf(o, c) == Map(LAMBDA inp : Map(LAMBDA it : <<it[2], it[3], it[4]>>, SelectSeq(inp, LAMBDA it : it[1] = c)), Expand(o.inputs, o.mult, 1))
OutOf(o, c) == Map(LAMBDA it : <<it[2], it[3], it[4]>>, SelectSeq(o.obs.out, LAMBDA it : it[1] = c))
ToolVerdict(o) ==
  IF o.obs.rc # 0 THEN "tool-failed"
  ELSE IF o.obs.produced # 1 THEN "documented-output-name-not-accepted"
  ELSE IF o.obs.parsed # 1 THEN "unparsable-output"
  ELSE IF \E c \in 1..2 : ~ToolOK(StreamsOf(o, c), o.clip # 0, o.clip, o.adjust, o.thr, OutOf(o, c)) THEN "tool-signal"
  ELSE IF \E i \in 1..Len(o.obs.out) : o.obs.out[i][1] \notin {1, 2} THEN "unknown-chromosome"
  ELSE "ok"
Verdict(o) ==
  IF o.mode = "tool" THEN ToolVerdict(o) ELSE
  IF o.obs.result # "ok" THEN "not-ok"
  ELSE IF o.obs.unmapped = 1 THEN "coordinate-not-from-input-or-window-edge"
  ELSE IF o.obs.nonint = 1 THEN "non-integral-sum"
  ELSE CASE o.mode = "many" -> IF MergeOK(o.streams, o.obs.out) THEN "ok" ELSE "merge-signal"
         [] o.mode = "into" -> IF PieceSignalOK(o.one, o.two, o.obs.out) THEN "ok" ELSE "merge_into"
         [] o.mode = "fill" -> IF FillOK(o.stream, o.hasRange = 1, o.rs, o.re, o.obs.out) THEN "ok" ELSE "fill"
Drift(o) == o.mode = "many" /\ o.obs.result = "ok" /\ o.obs.out # o.mech
Post == /\ \A i \in 1..Len(Obs) : LET v == Verdict(Obs[i]) IN
                                  /\ (v = "ok" \/ PrintT(<<"BAD", i, v>>))
                                  /\ (~Drift(Obs[i]) \/ PrintT(<<"DRIFT", i>>))
        /\ PrintT(<<"CHECKED", Len(Obs)>>)
=============================================================================
