------------------------------ MODULE Obs_Merge ------------------------------
EXTENDS Merge, Json, IOUtils
Obs == ndJsonDeserialize(IOEnv.OBS)
VARIABLE x
Init == x = 0
Next == UNCHANGED x
Verdict(o) ==
  IF o.obs.result # "ok" THEN "not-ok"
  ELSE IF o.obs.unmapped = 1 THEN "coordinate-not-from-input-or-window-edge"
  ELSE IF o.obs.nonint = 1 THEN "non-integral-sum"
  ELSE CASE o.mode = "many" -> IF MergeOK(o.streams, o.obs.out) THEN "ok" ELSE "merge-signal"
         [] o.mode = "into" -> IF PieceSignalOK(o.one, o.two, o.obs.out) THEN "ok" ELSE "merge_into"
         [] o.mode = "fill" -> IF FillOK(o.stream, o.hasRange = 1, o.rs, o.re, o.obs.out) THEN "ok" ELSE "fill"
Drift(o) == o.mode = "many" /\ o.obs.result = "ok" /\ o.obs.out # o.mech
Post == /\ \A i \in 1..Len(Obs) : LET v == Verdict(Obs[i]) IN
                                  /\ (v = "ok" \/ PrintT(<<"BAD", i, v>>))
                                  /\ (~Drift(Obs[i]) \/ PrintT(<<"DRIFT", i>>))
        /\ PrintT(<<"CHECKED", Len(Obs)>>)
=============================================================================
