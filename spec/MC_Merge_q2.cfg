CONSTANTS
  NS = 1
  MaxItems = 2
  W = 2
  Windows = 3
  Vals <- ValsA
  MinTotal = 0
INIT Init
NEXT Next
INVARIANTS MechOK Emit
CHECK_DEADLOCK FALSE
