------------------------------ MODULE Obs_RTree ------------------------------
(* Judges R-tree images decoded (by the independent codec) from files the real writer produced:
   (i) every child pointer leads to a node, (ii) every node span contains everything beneath it,
   (iii) searching the image = linear scan over the blocks for every boundary query, and the leaves
   list exactly the blocks in file order.  Drift: the image differs from the model's layout. *)
EXTENDS RTreeImage, Json, IOUtils
Obs == ndJsonDeserialize(IOEnv.OBS)
VARIABLE x
Init == x = 0
Next == UNCHANGED x

Verdict(o) ==
  IF o.obs.result # "ok" THEN "not-ok"
  ELSE LET v == TreeVerdict(o.tree, o.secs) IN
       IF v # "ok" THEN v
       ELSE IF o.ztree.present = 1 THEN TreeVerdict(o.ztree, o.zsecs) ELSE "ok"
Drift(o) == o.obs.result = "ok" /\ o.tree.error = 0 /\ ImgOf(o.tree) # Image(o.secs, o.b)
Post == /\ \A i \in 1..Len(Obs) : LET v == Verdict(Obs[i]) IN
                                  /\ (v = "ok" \/ PrintT(<<"BAD", i, v>>))
                                  /\ (~Drift(Obs[i]) \/ PrintT(<<"DRIFT", i>>))
        /\ PrintT(<<"CHECKED", Len(Obs)>>)
=============================================================================
