----------------------------- MODULE BigWigSpec -----------------------------
(* bigWig writer + reader: what a written file must give back (abstract layer, the oracles of
   C01 / C03 / C06 / C07) and the writer's mechanism as functions of the input (sections,
   summary, zoom tiling). *)
EXTENDS BBICommon

(* ------------------------------ C01 ------------------------------------ *)
\* F14 class: a zero-length value at base 0 or at the chromosome end is stored but never returned
DegenerateEdge(it, sizes) == Start(it) = End(it) /\ (Start(it) = 0 \/ Start(it) = sizes[Chrom(it)])
ChromTableOK(items, sizes, table) == table = Map(LAMBDA c : <<c, sizes[c]>>, ChromsOf(items))
RoundTripOK(items, sizes, o) ==
  /\ o.result = "ok"
  /\ ChromTableOK(items, sizes, o.chroms)
  /\ o.read = items
RoundTripKnownF14(items, sizes, o) ==
  /\ o.result = "ok"
  /\ ChromTableOK(items, sizes, o.chroms)
  /\ o.read # items
  /\ o.read = SelectSeq(items, LAMBDA it : ~DegenerateEdge(it, sizes))

(* ------------------------------ C03 ------------------------------------ *)
Clip(it, s, e) == <<Max2(it[1], s), Min2(it[2], e), it[3]>>       \* it = <<start, end, v>>
Req(its, s, e) == Map(LAMBDA it : Clip(it, s, e),
                      SelectSeq(its, LAMBDA it : it[1] < it[2] /\ s < e /\ it[2] > s /\ it[1] < e))
\* allowed but not required: a zero-length stored value strictly inside (s,e); for an empty range
\* s = e the empty sliver of a value strictly containing s
DegOK(its, s, e, x) ==
  \/ (x[1] = x[2] /\ s < x[1] /\ x[1] < e /\ \E i \in 1..Len(its) : its[i] = x)
  \/ (s = e /\ x[1] = s /\ x[2] = s /\ \E i \in 1..Len(its) : its[i][1] < s /\ s < its[i][2] /\ its[i][3] = x[3])
IntervalOK(its, s, e, res) ==
  /\ IsSubseq(Req(its, s, e), res)
  /\ \A k \in 1..Len(res) : (\E j \in 1..Len(Req(its, s, e)) : Req(its, s, e)[j] = res[k]) \/ DegOK(its, s, e, res[k])
  /\ \A k \in 2..Len(res) : res[k-1][1] <= res[k][1]
  \* nothing is returned more often than it is stored (identical zero-length values may be stored twice)
  /\ \A k \in 1..Len(res) : Cardinality({j \in 1..Len(res) : res[j] = res[k]})
                                <= Max2(1, Cardinality({j \in 1..Len(its) : its[j] = res[k]}))
NanTok == -99
ValuesOK(its, s, e, vals) ==
  /\ Len(vals) = e - s
  /\ \A i \in 1..(e - s) :
       LET b == s + i - 1
           cov == \E k \in 1..Len(its) : its[k][1] <= b /\ b < its[k][2] IN
       vals[i] = IF cov THEN its[CHOOSE k \in 1..Len(its) : its[k][1] <= b /\ b < its[k][2]][3] ELSE NanTok

(* ------------------------------ C06 ------------------------------------ *)
Pos(items) == SelectSeq(items, LAMBDA it : Start(it) < End(it))
SummaryOKW(items, sm) ==
  LET len(it) == End(it) - Start(it)
      p == Pos(items) IN
  /\ sm.bases = SeqSum(Map(len, items))
  /\ (p # <<>> =>
        /\ sm.sum = SeqSum(Map(LAMBDA it : len(it) * Val(it), items))
        /\ sm.sumsq = SeqSum(Map(LAMBDA it : len(it) * Val(it) * Val(it), items))
        \* zero-length values may or may not take part in min / max (the statement is silent): any subset
        /\ sm.min \in {Val(it) : it \in Range(items)} /\ sm.max \in {Val(it) : it \in Range(items)}
        /\ SetMin({Val(it) : it \in Range(items)}) <= sm.min /\ sm.min <= SetMin({Val(it) : it \in Range(p)})
        /\ SetMax({Val(it) : it \in Range(p)}) <= sm.max /\ sm.max <= SetMax({Val(it) : it \in Range(items)}))

(* ------------------------------ C07 ------------------------------------ *)
ZoomLevelOKW(items, sizes, lvl) ==   \* lvl = [res, recs]
  \A c \in Range(ChromsOf(items)) :
     LET its == ItemsOf(items, c)
         recs == SelectSeq(lvl.recs, LAMBDA r : r[1] = c) IN
     ZoomFaithful(c, sizes[c], lvl.res, recs, LAMBDA b : CovW(its, b), LAMBDA b : ValAtW(its, b))
\* with value token `inf` standing for +infinity (see BBICommon!ZoomFaithfulX)
ZoomLevelOKWX(items, sizes, lvl, inf) ==
  \A c \in Range(ChromsOf(items)) :
     LET its == ItemsOf(items, c)
         recs == SelectSeq(lvl.recs, LAMBDA r : r[1] = c) IN
     ZoomFaithfulX(c, sizes[c], lvl.res, recs, LAMBDA b : CovW(its, b), LAMBDA b : ValAtW(its, b), LAMBDA b : CovW(its, b) /\ ValAtW(its, b) = inf)
ZoomsOKWX(items, sizes, zooms, inf) ==
  /\ LevelsIncreasing(Map(LAMBDA z : z.res, zooms))
  /\ \A k \in 1..Len(zooms) : /\ ZoomLevelOKWX(items, sizes, zooms[k], inf)
                              /\ \A i \in 1..Len(zooms[k].recs) : zooms[k].recs[i][1] \in Range(ChromsOf(items))
                              /\ GroupedByChrom(zooms[k].recs)
ZoomsOKW(items, sizes, zooms) ==
  /\ LevelsIncreasing(Map(LAMBDA z : z.res, zooms))
  /\ \A k \in 1..Len(zooms) : /\ ZoomLevelOKW(items, sizes, zooms[k])
                              /\ \A i \in 1..Len(zooms[k].recs) : zooms[k].recs[i][1] \in Range(ChromsOf(items))
                              \* records are grouped by chromosome in file order
                              /\ GroupedByChrom(zooms[k].recs)

(* --------------------------- mechanism --------------------------------- *)
\* sections: chunks of at most ips items per chromosome, in order
RECURSIVE Chunk(_, _)
Chunk(s, n) == IF Len(s) <= n THEN (IF s = <<>> THEN <<>> ELSE <<s>>) ELSE <<SubSeq(s, 1, n)>> \o Chunk(SubSeq(s, n + 1, Len(s)), n)
RECURSIVE SectionsAcc(_, _, _)
SectionsAcc(items, cs, ips) == IF cs = <<>> THEN <<>> ELSE Chunk(ItemsOf(items, Head(cs)), ips) \o SectionsAcc(items, Tail(cs), ips)
Sections(items, ips) == SectionsAcc(items, ChromsOf(items), ips)
RECURSIVE Flatten(_)
Flatten(ss) == IF ss = <<>> THEN <<>> ELSE Head(ss) \o Flatten(Tail(ss))
\* zoom tiling of process_val_zoom over the values of one chromosome
ZoomRecsW(items, c, r) == ZoomRecsOf(c, r, Map(LAMBDA it : <<Start(it), End(it), Val(it)>>, ItemsOf(items, c)))
RECURSIVE ZoomRecsAllW(_, _, _)
ZoomRecsAllW(items, cs, r) == IF cs = <<>> THEN <<>> ELSE ZoomRecsW(items, Head(cs), r) \o ZoomRecsAllW(items, Tail(cs), r)
ModelZooms(items, zl) == [k \in 1..Len(zl) |-> [res |-> zl[k], recs |-> ZoomRecsAllW(items, ChromsOf(items), zl[k])]]
=============================================================================
