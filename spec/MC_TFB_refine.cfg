CONSTANTS
  MaxOps = 3
  Sizes = {0, 1, 2}
  ProducerProgs <- PP
  ConsumerProgs <- CP
SPECIFICATION Spec
INVARIANT AbstractInv
PROPERTY Refines
CHECK_DEADLOCK FALSE
