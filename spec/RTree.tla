-------------------------------- MODULE RTree --------------------------------
(* The on-disk R-tree ("cir tree") of bigtools: construction (get_rtreeindex), byte layout
   (calculate_offsets / write_tree / write_rtreeindex) and search (search_cir_tree_inner /
   CirTreeBlockSearchIter), plus the abstract property C05: searching the written index finds
   exactly what a linear scan over the blocks finds, in file order.

   A section (data block) is <<chrom, start, end>>; its position in the sequence is its file
   order.  The tree is regular (bottom-up chunking by the fan-out b), so it is described by
   levels: level 0 holds the leaf nodes (chunks of b sections), level l > 0 the nodes whose
   children are the nodes of level l-1; the root is the single node of the top level. *)
EXTENDS BBICommon

CeilDiv(a, b) == (a + b - 1) \div b

\* ---- construction --------------------------------------------------------------------
RECURSIVE LevelCounts(_, _)
\* <<n_0, n_1, ..., n_top>> with n_top = 1 (or n_0 = 0 for an empty tree: a single empty leaf)
LevelCounts(n, b) == IF n <= 1 THEN <<Max2(n, 1)>> ELSE <<n>> \o LevelCounts(CeilDiv(n, b), b)
Counts(n, b) == LevelCounts(CeilDiv(n, b), b)          \* number of nodes per level, leaves first
Top(n, b) == Len(Counts(n, b)) - 1                     \* = `levels` of the code
\* number of children of node j (0-based) on level l, given m = number of entities one level down
NChildren(m, b, j) == Min2(b, m - j * b)
Below(n, b, l) == IF l = 0 THEN n ELSE Counts(n, b)[l]  \* entities one level below level l (sections for l = 0)

\* lexicographic (chrom, base) order
LexLE(c1, p1, c2, p2) == c1 < c2 \/ (c1 = c2 /\ p1 <= p2)
LexMax(S) == CHOOSE x \in S : \A y \in S : LexLE(y[1], y[2], x[1], x[2])

\* span of node (l, j): <<startChrom, startBase, endChrom, endBase>> -- start of the first child,
\* lexicographic maximum end over all children (a bigBed section may reach past later ones)
RECURSIVE Span(_, _, _, _)
Span(secs, b, l, j) ==
  LET n == Len(secs)
      k == NChildren(Below(n, b, l), b, j)
      kids == {j * b + i : i \in 0..(k - 1)} IN
  IF l = 0
    THEN LET e == LexMax({<<secs[x + 1][1], secs[x + 1][3]>> : x \in kids}) IN
         <<secs[j * b + 1][1], secs[j * b + 1][2], e[1], e[2]>>
    ELSE LET first == Span(secs, b, l - 1, j * b)
             e == LexMax({<<Span(secs, b, l - 1, x)[3], Span(secs, b, l - 1, x)[4]>> : x \in kids}) IN
         <<first[1], first[2], e[1], e[2]>>

\* ---- byte layout -----------------------------------------------------------------------
HeaderSize == 48
NodeHeader == 4
NonLeafItem == 24
LeafItem == 32
ItemSize(l) == IF l = 0 THEN LeafItem ELSE NonLeafItem
FullSize(b, l) == NodeHeader + ItemSize(l) * b
NodeSize(n, b, l, j) == NodeHeader + ItemSize(l) * NChildren(Below(n, b, l), b, j)
RECURSIVE LevelBytes(_, _, _, _)
LevelBytes(n, b, l, upto) == IF upto = 0 THEN 0 ELSE LevelBytes(n, b, l, upto - 1) + NodeSize(n, b, l, upto - 1)
RECURSIVE LevelStart(_, _, _)
\* levels are written top-down right after the 48-byte header (offsets relative to the header start)
LevelStart(n, b, l) ==
  IF l = Top(n, b) THEN HeaderSize
  ELSE LevelStart(n, b, l + 1) + LevelBytes(n, b, l + 1, Counts(n, b)[l + 2])
\* where node (l, j) is actually written
NodeAt(n, b, l, j) == LevelStart(n, b, l) + LevelBytes(n, b, l, j)
\* the child pointer the writer stores: child level start + (children of earlier siblings + i) * FULL size
RECURSIVE KidsBefore(_, _, _, _)
KidsBefore(n, b, l, j) == IF j = 0 THEN 0 ELSE KidsBefore(n, b, l, j - 1) + NChildren(Below(n, b, l), b, j - 1)
ChildPtr(n, b, l, j, i) == LevelStart(n, b, l - 1) + (KidsBefore(n, b, l, j) + i) * FullSize(b, l - 1)

\* C05 (i) pointer exactness: every stored child pointer is the offset the child was written at
PointerExact(n, b) ==
  \A l \in 1..Top(n, b) : \A j \in 0..(Counts(n, b)[l + 1] - 1) :
    \A i \in 0..(NChildren(Below(n, b, l), b, j) - 1) : ChildPtr(n, b, l, j, i) = NodeAt(n, b, l - 1, j * b + i)

\* the image: function from offset to node [leaf, items]; a leaf item is <<span, sectionIndex>>,
\* a non-leaf item <<span, childOffset>>
ImageNode(secs, b, l, j) ==
  LET n == Len(secs)
      k == NChildren(Below(n, b, l), b, j) IN
  IF l = 0 THEN [leaf |-> TRUE, items |-> [i \in 1..k |-> <<<<secs[j*b+i][1], secs[j*b+i][2], secs[j*b+i][1], secs[j*b+i][3]>>, j * b + i>>]]
  ELSE [leaf |-> FALSE, items |-> [i \in 1..k |-> <<Span(secs, b, l - 1, j * b + i - 1), ChildPtr(n, b, l, j, i - 1)>>]]
Image(secs, b) ==
  LET n == Len(secs)
      places == {<<l, j>> : l \in 0..Top(n, b), j \in 0..(Max2(Len(secs), 1))} IN
  [off \in {NodeAt(n, b, p[1], p[2]) : p \in {q \in places : q[2] < Counts(n, b)[q[1] + 1]}} |->
     LET p == CHOOSE q \in places : q[2] < Counts(n, b)[q[1] + 1] /\ NodeAt(n, b, q[1], q[2]) = off IN ImageNode(secs, b, p[1], p[2])]

\* ---- search (reader) ---------------------------------------------------------------------
\* overlaps(): inclusive on both sides, lexicographic
Overlaps(qc, qs, qe, sp) == LexLE(qc, qs, sp[3], sp[4]) /\ LexLE(sp[1], sp[2], qc, qe)
\* pre-order DFS with front insertion = visit children in order; result: section indices in file order
RECURSIVE FlatR(_)
FlatR(ss) == IF ss = <<>> THEN <<>> ELSE Head(ss) \o FlatR(Tail(ss))
Flat(ss) == FlatR(ss)
RECURSIVE SearchFrom(_, _, _, _, _, _)
SearchFrom(img, off, qc, qs, qe, fuel) ==
  IF fuel = 0 \/ off \notin DOMAIN img THEN <<-1>>       \* dangling pointer: poison
  ELSE LET nd == img[off]
           hits == SelectSeq(nd.items, LAMBDA it : Overlaps(qc, qs, qe, it[1])) IN
       IF nd.leaf THEN Map(LAMBDA it : it[2], hits)
       ELSE Flat(Map(LAMBDA it : SearchFrom(img, it[2], qc, qs, qe, fuel - 1), hits))
Search(img, qc, qs, qe) == SearchFrom(img, HeaderSize, qc, qs, qe, 12)

LinearScan(secs, qc, qs, qe) ==
  LET idx == [i \in 1..Len(secs) |-> i] IN
  SelectSeq(idx, LAMBDA i : Overlaps(qc, qs, qe, <<secs[i][1], secs[i][2], secs[i][1], secs[i][3]>>))

\* C05 (ii) containment: every node span contains everything beneath it
RECURSIVE Contained(_, _, _, _)
Contained(secs, b, l, j) ==
  LET n == Len(secs)
      sp == Span(secs, b, l, j)
      k == NChildren(Below(n, b, l), b, j) IN
  \A i \in 0..(k - 1) :
    LET cs == IF l = 0 THEN <<secs[j*b+i+1][1], secs[j*b+i+1][2], secs[j*b+i+1][1], secs[j*b+i+1][3]>> ELSE Span(secs, b, l - 1, j * b + i) IN
    /\ LexLE(sp[1], sp[2], cs[1], cs[2]) /\ LexLE(cs[3], cs[4], sp[3], sp[4])
    /\ (l > 0 => Contained(secs, b, l - 1, j * b + i))
AllContained(secs, b) == Len(secs) = 0 \/ Contained(secs, b, Top(Len(secs), b), 0)

\* queries that start or end on a block boundary or one base either side of it
BoundaryPoints(secs, c) == UNION {{Max2(s[2] - 1, 0), s[2], s[2] + 1, Max2(s[3] - 1, 0), s[3], s[3] + 1} : s \in {x \in Range(secs) : x[1] = c}}
SearchEqualsScan(secs, b) ==
  LET img == Image(secs, b) IN
  \A c \in {s[1] : s \in Range(secs)} : \A qs \in BoundaryPoints(secs, c) : \A qe \in BoundaryPoints(secs, c) :
     qs <= qe => Search(img, c, qs, qe) = LinearScan(secs, c, qs, qe)
=============================================================================
