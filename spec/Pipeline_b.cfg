CONSTANTS
  Secs <- SecsUniform
  NChrom = 2
  NSec = 3
  Window = 1
  ChanCap = 0
SPECIFICATION Spec
INVARIANTS Deterministic NoStuck
PROPERTIES Terminates
CHECK_DEADLOCK FALSE
