------------------------------ MODULE RTreeImage ------------------------------
(* Predicates over an R-tree image decoded from a real file (by the independent codec):
   pointer validity, containment, header, leaves = blocks in file order, Search = LinearScan. *)
EXTENDS RTree
\* o.tree.nodes: sequence of [off, leaf (0/1), items: <<sc, sb, ec, eb, ptr>>]; ptr = child offset (relative to the
\* index header) or the 1-based file-order number of the block
ImgOf(t) == [off \in {t.nodes[i].off : i \in 1..Len(t.nodes)} |->
               LET nd == t.nodes[CHOOSE i \in 1..Len(t.nodes) : t.nodes[i].off = off] IN
               [leaf |-> nd.leaf = 1, items |-> Map(LAMBDA it : <<<<it[1], it[2], it[3], it[4]>>, it[5]>>, nd.items)]]
PtrsOK(img) == \A off \in DOMAIN img : img[off].leaf \/ \A i \in 1..Len(img[off].items) : img[off].items[i][2] \in DOMAIN img
SpanContains(sp, cs) == LexLE(sp[1], sp[2], cs[1], cs[2]) /\ LexLE(cs[3], cs[4], sp[3], sp[4])
ContainOK(img) == \A off \in DOMAIN img : img[off].leaf \/
                     \A i \in 1..Len(img[off].items) :
                        LET ch == img[img[off].items[i][2]] IN
                        \A k \in 1..Len(ch.items) : SpanContains(img[off].items[i][1], ch.items[k][1])
HeaderOK(t, secs) ==
  LET e == LexMax({<<s[1], s[3]>> : s \in Range(secs)}) IN
  /\ t.itemCount = Len(secs) /\ t.blockSize >= 2
  /\ t.startChrom = secs[1][1] /\ t.startBase = secs[1][2]
  /\ LexLE(e[1], e[2], t.endChrom, t.endBase)
SearchOK(img, secs) ==
  \A c \in {s[1] : s \in Range(secs)} : \A qs \in BoundaryPoints(secs, c) : \A qe \in BoundaryPoints(secs, c) :
     qs <= qe => Search(img, c, qs, qe) = LinearScan(secs, c, qs, qe)
LeavesOK(t, secs) == t.leaves = [i \in 1..Len(secs) |-> <<secs[i][1], secs[i][2], secs[i][1], secs[i][3], i>>]

TreeVerdict(t, secs) ==
  IF t.error = 1 THEN "undecodable"
  ELSE LET img == ImgOf(t) IN
       IF ~PtrsOK(img) THEN "dangling-pointer"
       ELSE IF ~LeavesOK(t, secs) THEN "leaves"
       ELSE IF ~ContainOK(img) THEN "containment"
       ELSE IF ~HeaderOK(t, secs) THEN "header"
       ELSE IF ~SearchOK(img, secs) THEN "search"
       ELSE "ok"
=============================================================================
