----------------------------- MODULE MC_AnyWriter -----------------------------
(* C10: a nondeterministic writer whose only obligation is to produce a well-formed file.  The
   data set is fixed; every layout dimension is chosen freely, one field per step (so that random
   walks sample the cross product uniformly per field): byte order, zlib/raw, version, presence of
   the total summary, chromosome-tree fan-out / id assignment / placement / node order, R-tree
   fan-out / node order / gaps, the encoding type of every bigWig section (bedGraph, variable step,
   fixed step, where the section is representable), zoom level present or not. *)
EXTENDS BigWigSpec, Json
B == INSTANCE BigBedSpec
CONSTANTS Kind, DS
VARIABLES lay, step
Fields == <<"types", "endian", "compress", "version", "summary", "ctbs", "idperm", "ctfirst", "ctorder", "rbs", "order", "gap", "zoom">>
\* data sets: sections (data blocks) in file order; bigWig item <<chrom, s, e, v>>, bigBed <<chrom, s, e, id>>
SecsW == CASE DS = 1 -> << << <<1, 0, 2, 1>>, <<1, 2, 4, 2>> >>, << <<1, 5, 7, 3>> >>, << <<2, 1, 2, 4>>, <<2, 2, 3, 5>>, <<2, 3, 4, 6>> >>,
                          << <<2, 6, 7, 1>> >>, << <<3, 0, 1, 1>>, <<3, 3, 4, 2>> >>, << <<3, 4, 6, 3>> >> >>
           [] DS = 2 -> << << <<1, 1, 3, 2>> >>, << <<2, 0, 1, 1>>, <<2, 2, 3, 1>>, <<2, 4, 5, 3>> >> >>
SecsB == CASE DS = 1 -> << << <<1, 0, 6, 1>>, <<1, 1, 2, 2>> >>, << <<1, 3, 4, 3>> >>, << <<2, 0, 1, 4>>, <<2, 0, 1, 5>> >>, << <<2, 2, 7, 6>> >>,
                          << <<3, 1, 3, 7>> >>, << <<3, 2, 2, 8>>, <<3, 5, 6, 9>> >> >>
           [] DS = 2 -> << << <<1, 2, 3, 1>> >>, << <<2, 0, 4, 2>>, <<2, 1, 2, 3>> >> >>
Secs == IF Kind = "bw" THEN SecsW ELSE SecsB
AllItems == Flatten(Secs)
NChrom == SetMax({it[1] : it \in Range(AllItems)})
\* which encodings can represent a bigWig section
SameSpan(sec) == \A i \in 1..Len(sec) : sec[i][3] - sec[i][2] = sec[1][3] - sec[1][2]
FixedStep(sec) == SameSpan(sec) /\ \A i \in 2..Len(sec) : sec[i][2] - sec[i-1][2] = (IF Len(sec) >= 2 THEN sec[2][2] - sec[1][2] ELSE 1) /\ (Len(sec) < 2 \/ sec[2][2] > sec[1][2])
TypesOf(sec) == {1} \cup (IF SameSpan(sec) THEN {2} ELSE {}) \cup (IF FixedStep(sec) THEN {3} ELSE {})
TypeVecs == IF Kind = "bw" THEN {tv \in [1..Len(Secs) -> {1, 2, 3}] : \A i \in 1..Len(Secs) : tv[i] \in TypesOf(Secs[i])} ELSE {[i \in 1..Len(Secs) |-> 1]}
Dom(f) == CASE f = "endian" -> {"little", "big"} [] f = "compress" -> {0, 1} [] f = "version" -> {1, 2, 3, 4}
            [] f = "summary" -> {0, 1} [] f = "ctbs" -> {1, 2, 256} [] f = "idperm" -> {0, 1} [] f = "ctfirst" -> {0, 1}
            [] f = "ctorder" -> {"bfs", "dfs"} [] f = "rbs" -> {2, 3, 256} [] f = "order" -> {"bfs", "dfs", "leaves_first", "reverse_levels"}
            [] f = "gap" -> {0, 3} [] f = "zoom" -> {0, 1, 2} [] f = "types" -> TypeVecs
Init == lay = <<>> /\ step = 1
Next == /\ step <= Len(Fields)
        /\ \E v \in Dom(Fields[step]) : lay' = Append(lay, v)
        /\ step' = step + 1
Done == step > Len(Fields)
\* a total summary may only be absent in version 1 files
Legal == Done => (lay[5] = 0 => lay[4] = 1)
ZoomRecs == ModelZooms(AllItems, <<2>>)[1].recs
\* the true statistics of the data (what a faithful writer stores in the total summary)
SummW == LET len(it) == End(it) - Start(it) IN
         [bases |-> SeqSum(Map(len, AllItems)), sum |-> SeqSum(Map(LAMBDA it : len(it) * Val(it), AllItems)),
          sumsq |-> SeqSum(Map(LAMBDA it : len(it) * Val(it) * Val(it), AllItems)),
          min |-> SetMin({Val(it) : it \in Range(AllItems)}), max |-> SetMax({Val(it) : it \in Range(AllItems)})]
SummB == LET parts == B!SummaryParts(AllItems, ChromsOf(AllItems)) IN
         [bases |-> SeqSum(Map(LAMBDA p : p.bases, parts)), sum |-> SeqSum(Map(LAMBDA p : p.sum, parts)),
          sumsq |-> SeqSum(Map(LAMBDA p : p.sumsq, parts)), min |-> SetMin({p.min : p \in Range(parts)}), max |-> SetMax({p.max : p \in Range(parts)})]
Emit == (Done /\ (lay[5] = 1 \/ lay[4] = 1)) =>
          PrintT(<<"REPLAY", ToJson([kind |-> Kind, ds |-> DS, secs |-> Secs, items |-> AllItems, nchrom |-> NChrom,
                                     types |-> lay[1], endian |-> lay[2], compress |-> lay[3], version |-> lay[4], summary |-> lay[5], ctbs |-> lay[6],
                                     idperm |-> lay[7], ctfirst |-> lay[8], ctorder |-> lay[9], rbs |-> lay[10], order |-> lay[11],
                                     gap |-> lay[12], zoom |-> lay[13],
                                     zrecs |-> IF Kind = "bw" THEN ZoomRecs ELSE <<>>,
                                     summ |-> IF Kind = "bw" THEN SummW ELSE SummB])>>)
=============================================================================
