CONSTANTS
  NChrom = 3
  NSec = 2
  Window = 3
  ChanCap = 2
SPECIFICATION Spec
INVARIANTS Deterministic NoStuck
PROPERTIES Terminates
CHECK_DEADLOCK FALSE
