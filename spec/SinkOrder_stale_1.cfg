CONSTANTS
  NZooms = 1
  IsBed = TRUE
  HeaderFirst = FALSE
  Stale = TRUE
  SkipBlank = FALSE
SPECIFICATION Spec
INVARIANTS PrefixSafe StaleSafe Complete
CHECK_DEADLOCK FALSE
