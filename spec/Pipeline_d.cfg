CONSTANTS
  Secs <- SecsMixed
  NChrom = 3
  NSec = 0
  Window = 2
  ChanCap = 1
SPECIFICATION Spec
INVARIANTS Deterministic NoStuck
PROPERTIES Terminates
CHECK_DEADLOCK FALSE
