CONSTANTS
  N = 45
  B = 6
  Shapes = {"mono1", "adj1", "multi", "nested"}
INIT Init
NEXT Next
INVARIANTS PtrOK ContainOK SearchOK Emit
CHECK_DEADLOCK FALSE
