----------------------------- MODULE Trace_Pipeline -----------------------------
(* Trace validation of the REAL write pipeline against Pipeline.tla (C11).
   One recorded run of a real writer is cut (by buffer ids, see checks/c11.py) into pipeline instances:
   the staging buffers one file token passes through, in chromosome order - the data lanes of a pass,
   or the lanes of one zoom level.  Header line: [secs |-> <<writes of lane 1, ...>>].  Events, in
   the order the hook handler saw them:
     setup k            the source creates lane k                        -> Setup(k)
     update k st        writer k is about to write (its own buffer state BEFORE: 0 NotStarted,
                        1/2 staged in memory / temp file, 3 Real)        -> WriteSection(k), later
     drop k             writer k is about to publish its buffer          -> WriteEnd(k), later
     switch k           the owner is about to hand the file to lane k    -> ORecv . OSwitch, later
     taken k            the owner has taken lane k's published state     -> OTask . OFile (the taking
                        itself is over: WriteEnd(k) must already have happened)
   Hooks fire at the START of a call, so a call takes effect at some point between its event and the
   next event of the same thread: TLC searches for such an order (pend = calls begun, not yet effective).
   Unlogged steps (Queue, EncDone, SrcFinish) are taken lazily, only when a begun call needs them.
   The writer's logged state must equal the model's bstate at every write, and Deterministic /
   NoStuck of Pipeline.tla are evaluated in every state of the validated behaviour. *)
EXTENDS Pipeline, Json, IOUtils, TLCExt
Tr == ndJsonDeserialize(IOEnv.TRACE)
TraceSecs == Tr[1].secs
TraceN == Len(Tr[1].secs)
VARIABLES l, pend, own
tvars == <<vars, l, pend, own>>
ASSUME TLCSet(7, 0)
E == Tr[l]
NoOwn == [k |-> 0, todo |-> <<>>]

TInit == Init /\ l = 2 /\ pend = [k \in K |-> ""] /\ own = NoOwn

StateCode(k) == CASE bstate[k] = "NotStarted" -> {0} [] bstate[k] = "Staged" -> {1, 2} [] OTHER -> {3}

EvSetup  == /\ l <= Len(Tr) /\ E.ev = "setup" /\ Setup(E.k) /\ l' = l + 1 /\ UNCHANGED <<pend, own>>
EvUpdate == /\ l <= Len(Tr) /\ E.ev = "update" /\ pend[E.k] = "" /\ ~wdone[E.k]
            /\ E.st \in StateCode(E.k)                          \* the writer's own view of its buffer
            /\ pend' = [pend EXCEPT ![E.k] = "write"] /\ l' = l + 1 /\ UNCHANGED <<vars, own>>
EvDrop   == /\ l <= Len(Tr) /\ E.ev = "drop" /\ pend[E.k] = "" /\ ~wdone[E.k]
            /\ pend' = [pend EXCEPT ![E.k] = "end"] /\ l' = l + 1 /\ UNCHANGED <<vars, own>>
EvSwitch == /\ l <= Len(Tr) /\ E.ev = "switch" /\ own.todo = <<>> /\ opc = "recv"
            /\ own' = [k |-> E.k, todo |-> <<"recv", "switch">>] /\ l' = l + 1 /\ UNCHANGED <<vars, pend>>
EvTaken  == /\ l <= Len(Tr) /\ E.ev = "taken" /\ own.todo = <<>> /\ opc = "task" /\ ok_ = E.k
            /\ IsSome(closed[E.k])                               \* the published state was there to be taken
            /\ own' = [k |-> E.k, todo |-> <<"task", "file">>] /\ l' = l + 1 /\ UNCHANGED <<vars, pend>>

\* effects of begun calls
DoWrite(k) == pend[k] = "write" /\ WriteSection(k) /\ pend' = [pend EXCEPT ![k] = ""] /\ UNCHANGED <<l, own>>
DoEnd(k)   == pend[k] = "end" /\ WriteEnd(k) /\ pend' = [pend EXCEPT ![k] = ""] /\ UNCHANGED <<l, own>>
DoOwner    == /\ own.todo # <<>>
              /\ CASE Head(own.todo) = "recv"   -> ORecv /\ Head(ownerq) = own.k      \* lanes are served in setup order
                   [] Head(own.todo) = "switch" -> OSwitch
                   [] Head(own.todo) = "task"   -> OTask
                   [] Head(own.todo) = "file"   -> OFile
              /\ own' = [own EXCEPT !.todo = Tail(@)] /\ UNCHANGED <<l, pend>>
\* unlogged steps, lazily
Silent == \E k \in K :
            \/ (pend[k] = "write" /\ Len(chan[k]) = 0 /\ Queue(k))
            \/ (pend[k] = "write" /\ Len(chan[k]) > 0 /\ EncDone(k, Head(chan[k])))
            \/ (pend[k] = "end" /\ Len(chan[k]) = 0 /\ SrcFinish(k))
TSilent == Silent /\ UNCHANGED <<l, pend, own>>
\* after the last event: the owner ends
TFinish == l = Len(Tr) + 1 /\ own.todo = <<>> /\ OEnd /\ UNCHANGED <<l, pend, own>>

TNext == EvSetup \/ EvUpdate \/ EvDrop \/ EvSwitch \/ EvTaken \/ (\E k \in K : DoWrite(k) \/ DoEnd(k)) \/ DoOwner \/ TSilent \/ TFinish
TSpec == TInit /\ [][TNext]_tvars

\* every lane was written exactly as often as the header says, and the destination is the ordered concatenation
EndOK == opc = "end" => (file = Some(Expected(NChrom)) /\ \A k \in K : queued[k] = Secs[k])
HighWater == /\ (IF l > TLCGet(7) THEN TLCSet(7, l) ELSE TRUE)
             /\ (IF opc = "end" THEN TLCSet(7, Len(Tr) + 2) ELSE TRUE)
Accepted == LET h == TLCGet(7) IN
            IF h = Len(Tr) + 2 THEN PrintT(<<"ACCEPTED", Len(Tr)>>) ELSE PrintT(<<"REJECTED", h>>)
=============================================================================
