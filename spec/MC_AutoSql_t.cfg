CONSTANTS
  K = 4
  MutStride = 1
INIT Init
NEXT Next
INVARIANT Emit
CHECK_DEADLOCK FALSE
