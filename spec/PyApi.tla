-------------------------------- MODULE PyApi --------------------------------
(* The Python-visible object model of pybigtools (beyond the listed properties): files on disk,
   reader objects (open / closed, path or file-like), record and zoom-record iterators (which own a
   re-opened file and outlive their parent), one-shot writer objects.  One spec action per public
   call.  An operation `o` is a record with the call's arguments; Cls(o) is the outcome class the
   call must have in the current state ("ok", "closed" = BBIFileClosed, "key" = KeyError,
   "value" = ValueError, "read" = BBIReadError, "stop" = StopIteration), Pay(o) judges the returned
   payload of a successful call against the data the file holds, Upd(o) is the state change.
   MC_PyApi draws call sequences from this machine (spec -> implementation); Trace_PyApi validates the
   recorded calls and results of the real extension against it (implementation -> spec). *)
EXTENDS BBICommon
W == INSTANCE BigWigSpec
B == INSTANCE BigBedSpec
Bn == INSTANCE Binning

CONSTANTS Handles, Iters, Writers, Paths
VARIABLES fs, rd, it, wr
pvars == <<fs, rd, it, wr>>

Sizes == <<10, 6>>                      \* chrAa, chrAb; chromosome 3 is unknown to every file
DataW(ds) == CASE ds = 1 -> << <<1, 1, 3, 2>>, <<1, 3, 4, 5>>, <<1, 6, 9, 1>>, <<2, 0, 2, 3>> >>
               [] ds = 2 -> << <<1, 0, 10, 4>> >>
               [] ds = 3 -> << <<2, 1, 2, 7>>, <<2, 4, 6, 2>> >>
DataB(ds) == CASE ds = 1 -> << <<1, 1, 6, 1>>, <<1, 2, 4, 2>>, <<1, 2, 4, 3>>, <<1, 8, 9, 4>>, <<2, 0, 3, 5>> >>
               [] ds = 2 -> << <<2, 1, 5, 1>> >>
               [] ds = 3 -> << <<1, 0, 10, 1>>, <<1, 5, 7, 2>> >>
Data(kind, ds) == IF kind = "bw" THEN DataW(ds) ELSE DataB(ds)
Ext(p) == CASE p \in {1, 3} -> "bw" [] p \in {2, 4} -> "bb" [] OTHER -> "txt"
Absent == [st |-> "absent", kind |-> "bw", ds |-> 0, zl |-> <<>>]
NoReader == [st |-> "none", kind |-> "bw", ds |-> 0, p |-> 0, zl |-> <<>>]
NoIter == [st |-> "none", typ |-> "rec", kind |-> "bw", ds |-> 0, p |-> 0, c |-> 0, s |-> 0, e |-> 0, lvl |-> 0, taken |-> <<>>]
NoWriter == [st |-> "none", p |-> 0]

\* paths 1, 2 and 5 hold files written by the real Rust writers beforehand (zoom levels 2 and 4);
\* 5 is a bigWig under a name that is neither .bw nor .bb; 3 and 4 do not exist yet
Fs0 == [p \in Paths |-> CASE p = 1 -> [st |-> "ok", kind |-> "bw", ds |-> 1, zl |-> <<2, 4>>]
                           [] p = 2 -> [st |-> "ok", kind |-> "bb", ds |-> 1, zl |-> <<2, 4>>]
                           [] p = 5 -> [st |-> "ok", kind |-> "bw", ds |-> 1, zl |-> <<2, 4>>]
                           [] OTHER -> Absent]
Rd0 == [h \in Handles |-> NoReader]
It0 == [i \in Iters |-> NoIter]
Wr0 == [w \in Writers |-> NoWriter]
Init == fs = Fs0 /\ rd = Rd0 /\ it = It0 /\ wr = Wr0

Has(o, f) == f \in DOMAIN o
\* triples <<start, end, x>> of chromosome c
Triples(kind, ds, c) == Map(LAMBDA x : <<x[2], x[3], x[4]>>, ItemsOf(Data(kind, ds), c))
ChromTable(kind, ds) == Map(LAMBDA c : <<c, Sizes[c]>>, ChromsOf(Data(kind, ds)))
KnownChrom(r, c) == \E k \in 1..Len(ChromTable(r.kind, r.ds)) : ChromTable(r.kind, r.ds)[k][1] = c
\* start_end(): start below 0 -> 0, end past the chromosome -> its length
ClampS(s) == Max2(s, 0)
ClampE(c, e) == Min2(Max2(e, 0), Sizes[c])

(* ------------------------- well-formedness of a call ------------------------- *)
InUse(p) == (\E h \in Handles : rd[h].st = "open" /\ rd[h].p = p) \/ (\E i \in Iters : it[i].st = "live" /\ it[i].p = p)
Enabled(o) ==
  CASE o.op = "open" -> o.via = "filelike" => fs[o.p].st # "absent"
    [] o.op \in {"close", "exit", "isbw", "isbb", "chroms", "chrom1", "zooms", "info", "sql", "records", "zoomrecs", "values"} -> rd[o.h].st # "none"
    [] o.op = "next" -> it[o.i].st = "live"
    [] o.op = "wopen" -> TRUE
    [] o.op \in {"wwrite", "wclose"} -> wr[o.w].st # "none" /\ ((o.op = "wwrite" /\ wr[o.w].st = "fresh") => ~InUse(wr[o.w].p))
    [] OTHER -> FALSE

(* ----------------------------- outcome class ----------------------------- *)
Cls(o) ==
  CASE o.op = "open" ->
         (IF o.via = "path" /\ Ext(o.p) = "txt" THEN "value"
          ELSE IF fs[o.p].st = "absent" THEN "value"
          ELSE IF fs[o.p].st = "broken" THEN "read" ELSE "ok")
    [] o.op \in {"close", "exit", "isbw", "isbb"} -> "ok"
    [] o.op \in {"chroms", "zooms", "info", "sql"} -> IF rd[o.h].st = "closed" THEN "closed" ELSE "ok"
    [] o.op \in {"chrom1", "records", "values"} ->
         (IF rd[o.h].st = "closed" THEN "closed" ELSE IF ~KnownChrom(rd[o.h], o.c) THEN "key" ELSE "ok")
    [] o.op = "zoomrecs" ->
         (IF rd[o.h].st = "closed" THEN "closed" ELSE IF ~KnownChrom(rd[o.h], o.c) THEN "key"
          ELSE IF o.lvl \notin Range(rd[o.h].zl) THEN "key" ELSE "ok")
    [] o.op = "next" -> IF Has(o, "cls") /\ o.cls = "stop" THEN "stop" ELSE "ok"      \* both are legal; Pay decides
    [] o.op = "wopen" -> IF Ext(o.p) = "txt" THEN "value" ELSE "ok"
    [] o.op = "wwrite" -> IF wr[o.w].st = "spent" THEN "closed" ELSE "ok"
    [] o.op = "wclose" -> "ok"

(* ------------------------------ state change ------------------------------ *)
\* the zoom levels of a file the Python writer produced are whatever the library chose: taken from
\* the recorded open() (zl = <<0>> stands for "not known")
ZlAtOpen(o) == IF fs[o.p].zl = <<0>> /\ Has(o, "zl") THEN o.zl ELSE fs[o.p].zl
Upd(o) ==
  LET c == Cls(o) IN
  CASE o.op = "open" ->
         /\ rd' = IF c = "ok" THEN [rd EXCEPT ![o.h] = [st |-> "open", kind |-> fs[o.p].kind, ds |-> fs[o.p].ds, p |-> o.p, zl |-> ZlAtOpen(o)]] ELSE rd
         /\ UNCHANGED <<fs, it, wr>>
    [] o.op \in {"close", "exit"} -> rd' = [rd EXCEPT ![o.h].st = "closed"] /\ UNCHANGED <<fs, it, wr>>
    [] o.op \in {"isbw", "isbb", "chroms", "chrom1", "zooms", "info", "sql", "values"} -> UNCHANGED pvars
    [] o.op \in {"records", "zoomrecs"} ->
         /\ it' = IF c = "ok" THEN [it EXCEPT ![o.i] = [st |-> "live", typ |-> IF o.op = "records" THEN "rec" ELSE "zoom", kind |-> rd[o.h].kind, ds |-> rd[o.h].ds,
                                                           p |-> rd[o.h].p, c |-> o.c, s |-> ClampS(o.s), e |-> ClampE(o.c, o.e),
                                                           lvl |-> IF o.op = "zoomrecs" THEN o.lvl ELSE 0, taken |-> <<>>]]
                  ELSE it
         /\ UNCHANGED <<fs, rd, wr>>
    [] o.op = "next" ->
         /\ it' = IF c = "stop" THEN [it EXCEPT ![o.i].st = "done"]
                  ELSE IF Has(o, "item") THEN [it EXCEPT ![o.i].taken = Append(@, o.item)] ELSE it
         /\ UNCHANGED <<fs, rd, wr>>
    [] o.op = "wopen" -> wr' = (IF c = "ok" THEN [wr EXCEPT ![o.w] = [st |-> "fresh", p |-> o.p]] ELSE wr) /\ UNCHANGED <<fs, rd, it>>
    [] o.op = "wwrite" ->
         \* valid data: the path now holds that data set.  Refused data (o.good = 0): the library's error is
         \* printed and the call returns normally (a named deviation, see DESIGN); the file stays unreadable.
         /\ fs' = IF c # "ok" THEN fs
                  ELSE [fs EXCEPT ![wr[o.w].p] = IF o.good = 1 THEN [st |-> "ok", kind |-> Ext(wr[o.w].p), ds |-> o.ds, zl |-> <<0>>]
                                                  ELSE [st |-> "broken", kind |-> Ext(wr[o.w].p), ds |-> 0, zl |-> <<>>]]
         /\ wr' = [wr EXCEPT ![o.w].st = "spent"]
         /\ UNCHANGED <<rd, it>>
    [] o.op = "wclose" -> wr' = [wr EXCEPT ![o.w].st = "spent"] /\ UNCHANGED <<fs, rd, it>>

(* ------------------------- payload of a successful call ------------------------- *)
InfoOK(kind, ds, inf) ==       \* inf = <<chromCount, basesCovered, sum, min, max>>
  LET items == Data(kind, ds) IN
  /\ inf[1] = Len(ChromsOf(items))
  /\ IF kind = "bw"
     THEN /\ inf[2] = SeqSum(Map(LAMBDA x : x[3] - x[2], items))
          /\ inf[3] = SeqSum(Map(LAMBDA x : (x[3] - x[2]) * x[4], items))
          /\ inf[4] = SetMin({x[4] : x \in Range(items)}) /\ inf[5] = SetMax({x[4] : x \in Range(items)})
     ELSE LET parts == B!SummaryParts(items, ChromsOf(items)) IN
          /\ inf[2] = SeqSum(Map(LAMBDA q : q.bases, parts)) /\ inf[3] = SeqSum(Map(LAMBDA q : q.sum, parts))
          /\ inf[4] = SetMin({q.min : q \in Range(parts)}) /\ inf[5] = SetMax({q.max : q \in Range(parts)})

\* a zoom record <<start, end, bases, min, max, sum, sumsq>> of chromosome data `tr` at resolution lvl
ZoomItemOK(kind, tr, lvl, s, e, z) ==
  LET cov(b) == Bn!SignalAt(kind, tr, b)[1]
      f(b) == Bn!SignalAt(kind, tr, b)[2]
      S == {b \in z[1]..(z[2] - 1) : cov(b)} IN
  /\ z[1] <= z[2] /\ z[2] - z[1] <= lvl
  /\ z[1] <= e /\ z[2] >= s                    \* nothing lying wholly outside the request
  /\ z[3] = Cardinality(S)
  /\ S # {} => LET st == Stats(S, f) IN z[4] = st.min /\ z[5] = st.max /\ z[6] = st.sum /\ z[7] = st.sumsq
ZoomDoneOK(kind, tr, s, e, taken) ==
  /\ \A k \in 2..Len(taken) : taken[k-1][2] <= taken[k][1]
  /\ \A b \in s..(e - 1) : Bn!SignalAt(kind, tr, b)[1] => \E k \in 1..Len(taken) : taken[k][1] <= b /\ b < taken[k][2]

Pay(o) ==
  CASE o.op = "open" -> /\ o.kind = fs[o.p].kind
                        /\ IF fs[o.p].zl = <<0>> THEN LevelsIncreasing(o.zl) ELSE o.zl = fs[o.p].zl
    [] o.op = "isbw" -> o.val = IF rd[o.h].st = "open" /\ rd[o.h].kind = "bw" THEN 1 ELSE 0
    [] o.op = "isbb" -> o.val = IF rd[o.h].st = "open" /\ rd[o.h].kind = "bb" THEN 1 ELSE 0
    [] o.op = "chroms" -> o.val = ChromTable(rd[o.h].kind, rd[o.h].ds)
    [] o.op = "chrom1" -> o.val = Sizes[o.c]
    [] o.op = "zooms" -> o.val = rd[o.h].zl
    [] o.op = "info" -> InfoOK(rd[o.h].kind, rd[o.h].ds, o.val)
    [] o.op = "sql" -> rd[o.h].kind = "bw" => o.val = "bedGraph"
    [] o.op = "values" -> Bn!PerBaseOK(rd[o.h].kind, Triples(rd[o.h].kind, rd[o.h].ds, o.c), Sizes[o.c], o.s, o.e, 0, Bn!NaNCode, o.val)
    [] o.op = "next" ->
         LET x == it[o.i]
             tr == Triples(x.kind, x.ds, x.c) IN
         IF x.typ = "zoom"
         THEN (IF o.cls = "stop" THEN ZoomDoneOK(x.kind, tr, x.s, x.e, x.taken) ELSE ZoomItemOK(x.kind, tr, x.lvl, x.s, x.e, o.item))
         ELSE IF x.kind = "bw"
         THEN (IF o.cls = "stop" THEN W!IntervalOK(tr, x.s, x.e, x.taken)
               ELSE \E j \in 1..Len(W!Req(tr, x.s, x.e)) : W!Req(tr, x.s, x.e)[j] = o.item)
         ELSE (IF o.cls = "stop" THEN B!EntryQueryOK(tr, x.s, x.e, x.taken)
               ELSE IsSubseq(Append(x.taken, o.item), B!Allowed(tr, x.s, x.e)))
    [] OTHER -> TRUE
=============================================================================
