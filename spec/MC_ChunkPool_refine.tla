------------------------- MODULE MC_ChunkPool_refine -------------------------
(* ChunkPool.tla (the specification the recorded runs of the real tool are validated against) refines ChunkPoolInd.tla
   (the abstraction proved for any K, W with TLAPS) under qh = K + 1 - Len(queue); and the queue really is <<qh, .., K>>. *)
EXTENDS ChunkPool
I == INSTANCE ChunkPoolInd WITH qh <- K + 1 - Len(queue)
AbsSpec == I!Spec
AbsInv == I!IndInv
QueueShape == queue = [i \in 1..Len(queue) |-> K - Len(queue) + i]
=============================================================================
