------------------------------ MODULE Obs_AutoSql ------------------------------
EXTENDS AutoSql, Json, IOUtils
Obs == ndJsonDeserialize(IOEnv.OBS)
VARIABLE x
Init == x = 0
Next == UNCHANGED x
Verdict(o) ==
  IF o.obs.result \notin {"ok", "writeerr", "exception"} THEN "parser-did-not-return"           \* hang / panic / crash (runaway allocation)
  ELSE IF o.kind # "pysql" /\ ~Total(o.obs.ans) THEN "not-total"
  ELSE IF o.kind = "valid" THEN
       IF o.obs.ans.result # "accept" THEN "valid-schema-rejected"
       ELSE IF o.obs.ans.counts # o.counts THEN "declared-fields-differ"
       ELSE IF o.obs.result # "ok" \/ o.obs.verbatim # 1 THEN "schema-not-stored-verbatim"
       ELSE IF o.obs.headerCount # o.hfc THEN "header-field-count"
       ELSE "ok"
  ELSE IF o.kind = "bed" THEN
       IF o.obs.result # "ok" THEN "write-failed"
       ELSE IF ~BedSchemaOK(o.n, o.obs.ans, o.obs.storedFields, o.obs.headerCount) THEN "generated-bed-schema"
       ELSE "ok"
  ELSE IF o.kind = "pysql" THEN
       \* the Python binding returns the stored schema verbatim; parsed, it has the fields of the last declaration
       IF o.obs.result # "ok" THEN "python-sql-failed"
       ELSE IF o.obs.same # 1 THEN "python-sql-not-verbatim"
       ELSE IF o.obs.nfields # o.hfc THEN "python-sql-fields"
       ELSE "ok"
  ELSE "ok"
Post == /\ \A i \in 1..Len(Obs) : LET v == Verdict(Obs[i]) IN (v = "ok" \/ PrintT(<<"BAD", i, v>>))
        /\ PrintT(<<"CHECKED", Len(Obs)>>)
=============================================================================
