CONSTANTS
  K = 4
  W = 0
  Fail = {3}
SPECIFICATION Spec
INVARIANTS TypeOK Ordered ExactlyOnce WaitSafe Outcome NoSkippedFailure
PROPERTY Finishes
CHECK_DEADLOCK FALSE
