------------------------------- MODULE TFBInd -------------------------------
(* Unbounded companion of TempFileBuffer.tla for Apalache: ANY number of producer writes of ANY
   length, the consumer programme switch ; await_real_file.  Contents are abstracted to lengths
   (bytes are only ever appended, so "every byte once, in order" is "the lengths add up" plus the
   append-only discipline that TempFileBuffer.tla checks on sequences for bounded programmes).
   -1 stands for "no file here".  IndInv is inductive (Init => IndInv, IndInv /\ Next => IndInv')
   and implies Delivered for every reachable state, with no bound on the number of writes. *)
EXTENDS Integers

CONSTANTS
  \* @type: Int;
  PreLen,         \* bytes already in the destination when it is handed over
  \* @type: Int;
  MaxN            \* largest single write (arbitrary: ConstInit leaves it unconstrained)

VARIABLES
  \* @type: Str;
  bstate,         \* producer: "NotStarted" | "Staged" | "Real"
  \* @type: Int;
  stagedLen,      \* producer: bytes staged
  \* @type: Int;
  pdest,          \* producer: length of the real file it owns, or -1
  \* @type: Int;
  mailbox,        \* shared cell: length of the file in it, or -1
  \* @type: Bool;
  closedSet,      \* shared: the producer has published its final state
  \* @type: Str;
  closedSt,
  \* @type: Int;
  closedStaged,
  \* @type: Int;
  closedDest,
  \* @type: Int;
  written,        \* history: bytes written so far
  \* @type: Bool;
  dropped,        \* producer finished (writer half dropped)
  \* @type: Str;
  cpc,            \* consumer: "start" | "switched" | "done"
  \* @type: Int;
  cdest,          \* consumer: length of the file it holds, or -1
  \* @type: Int;
  result          \* length of the file await_real_file returned, or -1

vars == <<bstate, stagedLen, pdest, mailbox, closedSet, closedSt, closedStaged, closedDest, written, dropped, cpc, cdest, result>>

ConstInit == PreLen \in Nat /\ MaxN \in Nat

Init == /\ bstate = "NotStarted" /\ stagedLen = 0 /\ pdest = -1 /\ mailbox = -1
        /\ closedSet = FALSE /\ closedSt = "NotStarted" /\ closedStaged = 0 /\ closedDest = -1
        /\ written = 0 /\ dropped = FALSE /\ cpc = "start" /\ cdest = PreLen /\ result = -1

\* write of n bytes: update() = one swap of the mailbox, then the private append
PWrite(n) ==
  /\ ~dropped /\ n >= 0
  /\ written' = written + n /\ mailbox' = -1
  /\ IF bstate = "Real" THEN /\ pdest' = pdest + n /\ UNCHANGED <<bstate, stagedLen>>
     ELSE IF mailbox # -1 THEN /\ bstate' = "Real" /\ pdest' = mailbox + stagedLen + n /\ stagedLen' = 0
     ELSE /\ bstate' = "Staged" /\ stagedLen' = stagedLen + n /\ UNCHANGED pdest
  /\ UNCHANGED <<closedSet, closedSt, closedStaged, closedDest, dropped, cpc, cdest, result>>

PDrop ==
  /\ ~dropped /\ dropped' = TRUE
  /\ closedSet' = TRUE /\ closedSt' = bstate /\ closedStaged' = stagedLen /\ closedDest' = pdest
  /\ bstate' = "NotStarted" /\ stagedLen' = 0 /\ pdest' = -1
  /\ UNCHANGED <<mailbox, written, cpc, cdest, result>>

CSwitch ==
  /\ cpc = "start" /\ mailbox' = cdest /\ cdest' = -1 /\ cpc' = "switched"
  /\ UNCHANGED <<bstate, stagedLen, pdest, closedSet, closedSt, closedStaged, closedDest, written, dropped, result>>

\* await_real_file completes once the final state is published: take it, take the mailbox, combine
CAwait ==
  /\ cpc = "switched" /\ closedSet
  /\ result' = IF mailbox # -1 THEN mailbox + closedStaged ELSE closedDest
  /\ mailbox' = -1 /\ closedSet' = FALSE /\ closedDest' = -1 /\ cpc' = "done"
  /\ UNCHANGED <<bstate, stagedLen, pdest, closedSt, closedStaged, written, dropped, cdest>>

Next == (\E n \in 0..MaxN : PWrite(n)) \/ PDrop \/ CSwitch \/ CAwait \/ (cpc = "done" /\ UNCHANGED vars)

Spec == Init /\ [][Next]_vars          \* TempFileBuffer.tla refines this (MC_TFB_refine, checked by TLC)

(* ---------------------------------------------------------------------------------------- *)
Delivered == cpc = "done" => result = PreLen + written

\* where the one file token is
TokenAt == (IF cdest # -1 THEN 1 ELSE 0) + (IF mailbox # -1 THEN 1 ELSE 0) + (IF pdest # -1 THEN 1 ELSE 0)
           + (IF closedSet /\ closedDest # -1 THEN 1 ELSE 0) + (IF result # -1 THEN 1 ELSE 0)

IndInv ==
  /\ PreLen >= 0 /\ written >= 0 /\ stagedLen >= 0 /\ closedStaged >= 0
  /\ bstate \in {"NotStarted", "Staged", "Real"} /\ closedSt \in {"NotStarted", "Staged", "Real"}
  /\ cpc \in {"start", "switched", "done"}
  /\ cdest >= -1 /\ mailbox >= -1 /\ pdest >= -1 /\ closedDest >= -1 /\ result >= -1
  /\ TokenAt = 1
  \* the untouched destination
  /\ (cdest # -1 => cdest = PreLen /\ cpc = "start")
  /\ (mailbox # -1 => mailbox = PreLen /\ cpc = "switched")
  /\ (cpc = "start" => cdest # -1)
  \* producer-private state
  /\ (~dropped /\ bstate = "NotStarted" => stagedLen = 0 /\ pdest = -1 /\ written = 0)
  /\ (~dropped /\ bstate = "Staged" => stagedLen = written /\ pdest = -1)
  /\ (~dropped /\ bstate = "Real" => pdest = PreLen + written /\ stagedLen = 0)
  /\ (dropped => bstate = "NotStarted" /\ stagedLen = 0 /\ pdest = -1)
  \* the published state
  /\ (closedSet => dropped)
  /\ (dropped /\ cpc # "done" => closedSet)
  /\ (~dropped => ~closedSet /\ cpc # "done")
  /\ (closedSet /\ closedSt = "Real" => closedDest = PreLen + written /\ closedStaged = 0)
  /\ (closedSet /\ closedSt = "Staged" => closedDest = -1 /\ closedStaged = written)
  /\ (closedSet /\ closedSt = "NotStarted" => closedDest = -1 /\ closedStaged = 0 /\ written = 0)
  /\ (cpc = "done" => dropped /\ ~closedSet /\ result = PreLen + written)
  /\ (cpc # "done" => result = -1)

\* the inductive step starts from ANY state satisfying IndInv
States == {"NotStarted", "Staged", "Real"}
IndInit ==
  /\ bstate \in States /\ stagedLen \in Int /\ pdest \in Int /\ mailbox \in Int
  /\ closedSet \in BOOLEAN /\ closedSt \in States /\ closedStaged \in Int /\ closedDest \in Int
  /\ written \in Int /\ dropped \in BOOLEAN /\ cpc \in {"start", "switched", "done"} /\ cdest \in Int /\ result \in Int
  /\ IndInv
=============================================================================
