CONSTANTS
  Handles = {1, 2}
  Iters = {1, 2}
  Writers = {1}
  Paths = {1, 2, 3, 4, 5}
  N = 12
INIT MCInit
NEXT MCNext
INVARIANT Emit
INVARIANT TypeOK
INVARIANT ReaderCoherent
INVARIANT IterCoherent
PROPERTY ClosedIsFinal
CHECK_DEADLOCK FALSE
