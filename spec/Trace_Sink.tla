------------------------------- MODULE Trace_Sink -------------------------------
(* Trace validation of the recorded sequence of write/seek/flush operations that reached the
   destination (several recorded runs concatenated, "reset" between them).  Byte granularity:
   `done` is the set of byte positions that hold their final content.  A write whose bytes equal the
   final file's bytes there adds its range, any other write (a placeholder) removes it.  PrefixSafe
   is evaluated after EVERY operation: once the 64-byte header is final, every advertised byte
   range (zoom directory, autoSql, data, chromosome tree, indexes, zoom data) must be final. *)
EXTENDS Naturals, Sequences, FiniteSets, TLC, Json, IOUtils
Tr == ndJsonDeserialize(IOEnv.TRACE)
VARIABLES done, adv, l
Rng(lo, hi) == IF hi > lo THEN lo..(hi - 1) ELSE {}
AdvOf(e) == UNION {Rng(e.adv[i][1], e.adv[i][2]) : i \in 1..Len(e.adv)}
TInit == l = 2 /\ Tr[1].ev = "reset" /\ done = {} /\ adv = AdvOf(Tr[1])
E == Tr[l]
TReset == l <= Len(Tr) /\ E.ev = "reset" /\ done' = {} /\ adv' = AdvOf(E) /\ l' = l + 1
TWrite == /\ l <= Len(Tr) /\ E.ev = "w"
          /\ done' = IF E.final = 1 THEN done \cup Rng(E.off, E.off + E.len) ELSE done \ Rng(E.off, E.off + E.len)
          /\ l' = l + 1 /\ UNCHANGED adv
TOther == l <= Len(Tr) /\ E.ev \in {"s", "f"} /\ l' = l + 1 /\ UNCHANGED <<done, adv>>
TNext == TReset \/ TWrite \/ TOther
TSpec == TInit /\ [][TNext]_<<done, adv, l>>
HeaderFinal == Rng(0, 64) \subseteq done
PrefixSafe == HeaderFinal => adv \subseteq done
Accepted == LET d == TLCGet("stats").diameter IN
            IF d = Len(Tr) THEN PrintT(<<"ACCEPTED", Len(Tr)>>) ELSE PrintT(<<"REJECTED", d + 1>>)
=============================================================================
