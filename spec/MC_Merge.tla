------------------------------ MODULE MC_Merge ------------------------------
(* Builds up to NS sorted streams of at most MaxItems values over 0..Windows*W and checks that the
   windowed mechanism preserves the per-base signal (MergeOK).  Exhaustive with small constants,
   random walks (-simulate) with larger ones.  Every complete input is a behaviour. *)
EXTENDS Merge, Json
CONSTANTS NS, MaxItems, W, Windows, Vals, MinTotal
VARIABLES streams, cur, done
vars == <<streams, cur, done>>
ValsA == {-1, 1, 2}
ValsB == {-1, 0, 1, 2}
Top == Windows * W
Init == streams = <<<<>>>> /\ cur = 1 /\ done = FALSE
LastEnd == IF streams[cur] = <<>> THEN 0 ELSE streams[cur][Len(streams[cur])][2]
Add(s, e, v) == /\ ~done /\ Len(streams[cur]) < MaxItems
                /\ streams' = [streams EXCEPT ![cur] = Append(@, <<s, e, v>>)] /\ UNCHANGED <<cur, done>>
NextStream == /\ ~done /\ cur < NS /\ streams' = Append(streams, <<>>) /\ cur' = cur + 1 /\ UNCHANGED done
Total == SeqSum(Map(LAMBDA st : Len(st), streams))
Finish == /\ ~done /\ (Total >= MinTotal \/ (cur = NS /\ (Len(streams[cur]) = MaxItems \/ LastEnd >= Top - 1))) /\ done' = TRUE /\ UNCHANGED <<streams, cur>>
Next == \/ \E s \in LastEnd..(Top - 1) : \E e \in (s + 1)..Top : \E v \in Vals : Add(s, e, v)
        \/ NextStream \/ Finish
MechOK == done => MergeOK(streams, MergeMech(streams, W))
Emit == done => PrintT(<<"REPLAY", ToJson([streams |-> streams, W |-> W, mech |-> MergeMech(streams, W)])>>)
=============================================================================
