------------------------------ MODULE ChunkPool ------------------------------
(* The chunked, multi-threaded path of bigwigaverageoverbed (C17, "identical for any number of threads"):
   the BED file is cut into K byte ranges; every range is put on one shared queue (the sending side is
   dropped before any thread starts: an empty queue is a closed queue) together with a one-shot result
   channel; W worker threads loop { take the next range; compute its rows into a temporary file; send it };
   the main thread goes through the result channels IN RANGE ORDER: try_recv; when the result is not there
   yet it helps - takes a range from the queue itself, computes and sends it - and tries again; when the
   queue is closed it blocks on the result.  Rows are copied to the output in range order; the first range
   whose computation failed ends the run with that error.

   One action per call the code makes on a shared object (queue recv, result send, try_recv, blocking recv).
   Thread 0 is the main thread.  Fail = the ranges whose computation returns an error. *)
EXTENDS Naturals, Sequences, FiniteSets
CONSTANTS K, W, Fail
Chunks == 1..K
Threads == 0..W
VARIABLES queue,    \* ranges not yet taken, FIFO
          slot,     \* per range: "none" | "ok" | "err" (result sent, not yet received) | "taken"
          pc,       \* per thread. workers: "recv" | "work" | "exit";  main: "try" | "recvq" | "work" | "wait" | "done" | "error"
          cur,      \* the range a thread is computing (0: none)
          head,     \* the range whose result the main thread wants next
          out       \* ranges copied to the output, in order
vars == <<queue, slot, pc, cur, head, out>>

Init == /\ queue = [i \in 1..K |-> i] /\ slot = [c \in Chunks |-> "none"]
        /\ pc = [t \in Threads |-> IF t = 0 THEN (IF K = 0 THEN "done" ELSE "try") ELSE "recv"]
        /\ cur = [t \in Threads |-> 0] /\ head = 1 /\ out = <<>>

\* chunk_data_receiver.recv(): the next range, or "closed" (workers leave; the main thread starts blocking on results)
Recv(t) == /\ pc[t] = IF t = 0 THEN "recvq" ELSE "recv"
           /\ IF queue # <<>>
                THEN /\ cur' = [cur EXCEPT ![t] = Head(queue)] /\ queue' = Tail(queue) /\ pc' = [pc EXCEPT ![t] = "work"]
                ELSE /\ pc' = [pc EXCEPT ![t] = IF t = 0 THEN "wait" ELSE "exit"] /\ UNCHANGED <<cur, queue>>
           /\ UNCHANGED <<slot, head, out>>
\* process_chunk ... result_sender.send(result): the result channel has room for exactly the one result it ever carries
Send(t) == /\ pc[t] = "work"
           /\ slot[cur[t]] = "none"
           /\ slot' = [slot EXCEPT ![cur[t]] = IF cur[t] \in Fail THEN "err" ELSE "ok"]
           /\ pc' = [pc EXCEPT ![t] = IF t = 0 THEN "try" ELSE "recv"] /\ cur' = [cur EXCEPT ![t] = 0]
           /\ UNCHANGED <<queue, head, out>>
\* the main thread received the result of range `head`
Consume == /\ slot[head] \in {"ok", "err"}
           /\ slot' = [slot EXCEPT ![head] = "taken"]
           /\ IF slot[head] = "err" THEN pc' = [pc EXCEPT ![0] = "error"] /\ UNCHANGED <<head, out>>
              ELSE /\ out' = Append(out, head) /\ head' = head + 1
                   /\ pc' = [pc EXCEPT ![0] = IF head = K THEN "done" ELSE "try"]
           /\ UNCHANGED <<queue, cur>>
\* result_receiver.try_recv()
MTry == /\ pc[0] = "try"
        /\ IF slot[head] \in {"ok", "err"} THEN Consume
           ELSE pc' = [pc EXCEPT ![0] = "recvq"] /\ UNCHANGED <<queue, slot, cur, head, out>>
\* result_receiver.recv() once the queue is closed
MWait == pc[0] = "wait" /\ Consume

Thread(t) == Recv(t) \/ Send(t) \/ (t = 0 /\ (MTry \/ MWait))
Next == \E t \in Threads : Thread(t)
Spec == Init /\ [][Next]_vars /\ \A t \in Threads : WF_vars(Thread(t))

TypeOK == /\ queue \in Seq(Chunks) /\ slot \in [Chunks -> {"none", "ok", "err", "taken"}]
          /\ pc \in [Threads -> {"recv", "work", "exit", "try", "recvq", "wait", "done", "error"}]
          /\ cur \in [Threads -> 0..K] /\ head \in 1..(K + 1) /\ out \in Seq(Chunks)
\* rows come out in range order, nothing twice, nothing skipped
Ordered == out = [i \in 1..Len(out) |-> i] /\ head = Len(out) + 1
\* every range is in exactly one place: still queued, being computed by exactly one thread, or computed
Holders(c) == {t \in Threads : pc[t] = "work" /\ cur[t] = c}
InQueue(c) == \E i \in 1..Len(queue) : queue[i] = c
ExactlyOnce == \A c \in Chunks :
                 /\ Cardinality(Holders(c)) <= 1
                 /\ (InQueue(c) => Holders(c) = {} /\ slot[c] = "none")
                 /\ (Holders(c) # {} => slot[c] = "none")
                 /\ (slot[c] = "none" => InQueue(c) \/ Holders(c) # {})
\* blocking on a result is safe: somebody is computing it or it is there (the main thread is not the one holding it)
WaitSafe == pc[0] = "wait" => (queue = <<>> /\ (slot[head] \in {"ok", "err"} \/ \E t \in 1..W : pc[t] = "work" /\ cur[t] = head))
\* the outcome: all rows of all ranges when nothing failed; otherwise the error of the FIRST failing range after exactly the rows before it
Outcome == /\ (pc[0] = "done" => out = [i \in 1..K |-> i] /\ Fail \cap Chunks = {})
           /\ (pc[0] = "error" => head \in Fail /\ (\A c \in 1..(head - 1) : c \notin Fail) /\ out = [i \in 1..(head - 1) |-> i])
\* no failure is ever skipped over
NoSkippedFailure == \A i \in 1..Len(out) : out[i] \notin Fail
Finishes == <>(pc[0] \in {"done", "error"})
=============================================================================
