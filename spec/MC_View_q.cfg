CONSTANTS
  N = 12
  Windows <- WindowsQ
  MaxOps = 3
  ReadSizes = {0, 2, 20}
  StartArgs = {0, 3, 15}
  CurArgs <- CurArgsD
  EndArgs <- EndArgsD
INIT Init
NEXT Next
INVARIANTS InWindow Emit
CHECK_DEADLOCK FALSE
