CONSTANTS
  AnyOrder = FALSE
  MinItems = 0
  NC = 1
  L = 5
  MaxItems = 3
  MaxPerChrom = 3
  Vals = {1, 2}
  IPS = {1, 2}
  ZoomLists = "c"
INIT Init
NEXT Next
INVARIANTS MechRoundTrip MechZoom Emit
CHECK_DEADLOCK FALSE
