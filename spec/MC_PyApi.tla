------------------------------- MODULE MC_PyApi -------------------------------
(* Call sequences drawn from the PyApi machine (random walks): every sequence that reaches N calls is
   printed with the outcome class the specification predicts for each call. *)
EXTENDS PyApi, Json
CONSTANTS N
VARIABLES hist
Rec(o) == hist' = Append(hist, o @@ [exp |-> Cls(o)])
Do(o) == Enabled(o) /\ Upd(o) /\ Rec(o)
MCInit == Init /\ hist = <<>>
SmallRanges == {<<-1, 3>>}
Ranges == {<<-1, 3>>, <<0, 12>>, <<2, 5>>, <<4, 6>>, <<0, 1>>, <<5, 10>>}
AOpen == \E h \in Handles, p \in Paths, v \in {"path", "filelike"} : Do([op |-> "open", h |-> h, p |-> p, via |-> v])
AClose == \E h \in Handles, x \in {"close", "exit"} : Do([op |-> x, h |-> h])
AAttr == \E h \in Handles, x \in {"isbw", "isbb", "chroms", "zooms", "info", "sql"} : Do([op |-> x, h |-> h])
AChrom1 == \E h \in Handles, c \in 1..3 : Do([op |-> "chrom1", h |-> h, c |-> c])
ARecords == \E h \in Handles, i \in Iters, c \in 1..3, r \in Ranges : Do([op |-> "records", h |-> h, i |-> i, c |-> c, s |-> r[1], e |-> r[2]])
AZoom == \E h \in Handles, i \in Iters, c \in 1..3, r \in Ranges, lvl \in {2, 3, 4} :
            Do([op |-> "zoomrecs", h |-> h, i |-> i, c |-> c, s |-> r[1], e |-> r[2], lvl |-> lvl])
AValues == \E h \in Handles, c \in 1..3, r \in Ranges \cup {<<-2, 2>>, <<8, 12>>} : Do([op |-> "values", h |-> h, c |-> c, s |-> r[1], e |-> r[2]])
ANext == \E i \in Iters : Do([op |-> "next", i |-> i])
AWOpen == \E w \in Writers, p \in Paths : Do([op |-> "wopen", w |-> w, p |-> p])
AWWrite == \E w \in Writers, ds \in 1..3, g \in {0, 1} :
             Do([op |-> "wwrite", w |-> w, ds |-> ds, good |-> g, items |-> IF wr[w].st = "none" THEN <<>> ELSE Data(Ext(wr[w].p), ds)])
AWClose == \E w \in Writers : Do([op |-> "wclose", w |-> w])
MCNext == Len(hist) < N /\ (AOpen \/ AClose \/ AAttr \/ AChrom1 \/ ARecords \/ AZoom \/ AValues \/ ANext \/ ANext \/ AWOpen \/ AWWrite \/ AWClose)
\* (simulation evaluates this on every generated successor: only sequences ending in a call with few
\* argument choices are printed, so that the printed set is not dominated by one walk's last step)
SmallOps == {"close", "exit", "isbw", "isbb", "chroms", "zooms", "info", "sql", "chrom1", "next", "wclose", "wwrite", "wopen"}
Emit == (Len(hist) = N /\ hist[N].op \in SmallOps) => PrintT(<<"REPLAY", ToJson(hist)>>)
\* the data sets, for the driver's own random call sequences
ASSUME PrintT(<<"DATA", ToJson([bw |-> <<DataW(1), DataW(2), DataW(3)>>, bb |-> <<DataB(1), DataB(2), DataB(3)>>])>>)
\* design-level invariants of the object model
TypeOK == /\ \A h \in Handles : rd[h].st \in {"none", "open", "closed"}
          /\ \A i \in Iters : it[i].st \in {"none", "live", "done"}
          /\ \A w \in Writers : wr[w].st \in {"none", "fresh", "spent"}
\* an open reader always refers to a readable file holding the data it was opened on (writers never touch a path in use)
ReaderCoherent == \A h \in Handles : rd[h].st = "open" => fs[rd[h].p].st = "ok" /\ fs[rd[h].p].ds = rd[h].ds /\ fs[rd[h].p].kind = rd[h].kind
IterCoherent == \A i \in Iters : it[i].st = "live" => fs[it[i].p].st = "ok" /\ fs[it[i].p].ds = it[i].ds
\* a closed reader answers nothing but the two type flags
ClosedIsFinal == [][\A h \in Handles : rd[h].st = "closed" => rd'[h].st = "closed" \/ (\E o \in {hist'[Len(hist')]} : o.op = "open" /\ o.h = h)]_<<pvars, hist>>
=============================================================================
