------------------------------ MODULE MC_TFB ------------------------------
(* Model-checking instance of TempFileBuffer: all interleavings of every producer programme
   with every legal consumer programme.  `hist` records the schedule; every complete behaviour
   is printed as one REPLAY line and becomes a test programme for the real TempFileBuffer. *)
EXTENDS TempFileBuffer, Json, SequencesExt
CONSTANTS MaxOps, Sizes
VARIABLE hist

\* all producer programmes: sequences of length <= MaxOps over write sizes and flush
Ops == Sizes \cup {Flush}
PP == UNION { [1..k -> Ops] : k \in 0..MaxOps }
CP == {"switch_await", "ecw", "len_ecw", "len_len_ecw"}

mcvars == <<vars, hist>>
H(op, n) == hist' = Append(hist, [op |-> op, n |-> n])

MCInit == /\ \E pp \in PP, cp \in CP : InitWith([pp |-> pp, cp |-> cp])
          /\ hist = <<>>
MCNext == \/ PWrite /\ H("w", PCur)
          \/ PFlush /\ H("f", 0)
          \/ PDrop /\ H("drop", 0)
          \/ CSwitch /\ H("switch", 0)
          \/ CPark /\ H("park", 0)
          \/ CAwait /\ H("await", 0)
          \/ CEcw /\ H("ecw", 0)
          \/ CLen /\ H("len", 0)
MCSpec == MCInit /\ [][MCNext]_mcvars

Emit == Done => PrintT(<<"REPLAY", ToJson([pp |-> cfg.pp, cp |-> cfg.cp, hist |-> hist,
                                          final |-> cres.val, written |-> written])>>)
NoStuckMC == Done \/ ENABLED MCNext
=============================================================================
