------------------------------ MODULE Trace_PyApi ------------------------------
(* Trace validation: the calls the driver made on the REAL pybigtools extension, with the outcome
   class and payload of each, replayed through the PyApi machine (many recorded sequences, a "reset"
   event between them).  A call whose outcome the machine does not allow is reported (<<"BAD", line,
   op, expected class>>) and the rest of that sequence is skipped; validation goes on with the next. *)
EXTENDS PyApi, Json, IOUtils
Tr == ndJsonDeserialize(IOEnv.TRACE)
VARIABLES l, taint
E == Tr[l]
TInit == Init /\ l = 1 /\ taint = FALSE
TReset == /\ l <= Len(Tr) /\ E.op = "reset"
          /\ fs' = Fs0 /\ rd' = Rd0 /\ it' = It0 /\ wr' = Wr0 /\ taint' = FALSE /\ l' = l + 1
\* the refused write: the library's error is printed and the call returns normally today; raising would be as good
ClsOK(o) == o.cls = Cls(o) \/ (o.op = "wwrite" /\ o.good = 0 /\ Cls(o) = "ok")
TStep == /\ l <= Len(Tr) /\ E.op # "reset" /\ l' = l + 1
         /\ IF taint \/ E.op = "skip" THEN UNCHANGED <<pvars, taint>>
            ELSE IF ~Enabled(E) THEN /\ PrintT(<<"ILLFORMED", l, E.op>>) /\ taint' = TRUE /\ UNCHANGED pvars
            ELSE LET ok == ClsOK(E) /\ ((E.cls \in {"ok", "stop"} /\ E.cls = Cls(E)) => Pay(E)) IN
                 /\ Upd(E)
                 /\ taint' = ~ok
                 /\ (ok \/ PrintT(<<"BAD", l, E.op, Cls(E)>>))
TNext == TReset \/ TStep
TSpec == TInit /\ [][TNext]_<<pvars, l, taint>>
ReaderCoherent == \A h \in Handles : rd[h].st = "open" => fs[rd[h].p].st = "ok" /\ fs[rd[h].p].ds = rd[h].ds
Post == LET d == TLCGet("stats").diameter IN
        IF d = Len(Tr) + 1 THEN PrintT(<<"CHECKED", Len(Tr)>>) ELSE PrintT(<<"STUCK", d>>)
=============================================================================
