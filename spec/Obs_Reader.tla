------------------------------ MODULE Obs_Reader ------------------------------
(* Each line: one history executed against ONE real reader instance; every answer along the
   history must satisfy the abstract predicates of C03 (history independence). *)
EXTENDS BigWigSpec, Json, IOUtils
B == INSTANCE BigBedSpec
Obs == ndJsonDeserialize(IOEnv.OBS)
IsBed(o) == "kind" \in DOMAIN o /\ o.kind = "bb"
VARIABLE x
Init == x = 0
Next == UNCHANGED x
Triples(items, c) == Map(LAMBDA it : <<Start(it), End(it), Val(it)>>, ItemsOf(items, c))
AnsBad(o, a) ==
  \* (a query naming a chromosome the file does not have - op "badchrom" - is not judged itself: the statement does not say whether
  \*  that is an error or an empty answer; what is judged is every answer AFTER it)
  \/ (a.op # "badchrom" /\ a.err = 1)
  \/ (a.op = "interval" /\ ~IsBed(o) /\ ~IntervalOK(Triples(o.items, a.c), a.s, a.e, a.iv))
  \* a bigBed reader (C04): every entry overlapping the range, once, in stored order, nothing wholly outside it
  \/ (a.op = "interval" /\ IsBed(o) /\ ~B!EntryQueryOK(Triples(o.items, a.c), a.s, a.e, a.iv))
  \/ (a.op = "values" /\ ~ValuesOK(Triples(o.items, a.c), a.s, a.e, a.vals))
  \* a zoom query through the same reader: every record of the file's level that intersects the range, in order, nothing beyond it
  \/ (a.op = "zoom" /\ ~ZoomQueryOK(Map(LAMBDA z : <<z[2], z[3]>>, SelectSeq(o.obs.zlevel, LAMBDA z : z[1] = a.c)), a.s, a.e, a.zr))
Verdict(o) == IF o.obs.result # "ok" THEN "not-ok"
              ELSE IF o.obs.unmapped = 1 THEN "coordinate-not-from-input"
              ELSE IF \E k \in 1..Len(o.obs.answers) : AnsBad(o, o.obs.answers[k]) THEN "answer-depends-on-history-or-wrong"
              ELSE "ok"
\* the model's zoom level (Reader!ZRecs = the tiling mechanism of C07) against the level the real writer stored
Drift(o) == "zrecs" \in DOMAIN o /\ o.obs.result = "ok" /\ o.zrecs # <<>> /\ o.obs.zlevel # o.zrecs
Post == /\ \A i \in 1..Len(Obs) : LET v == Verdict(Obs[i]) IN (v = "ok" \/ PrintT(<<"BAD", i, v>>)) /\ (~Drift(Obs[i]) \/ PrintT(<<"DRIFT", i>>))
        /\ PrintT(<<"CHECKED", Len(Obs)>>)
=============================================================================
