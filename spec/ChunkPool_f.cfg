CONSTANTS
  K = 1
  W = 2
  Fail = {}
SPECIFICATION Spec
INVARIANTS TypeOK Ordered ExactlyOnce WaitSafe Outcome NoSkippedFailure
PROPERTY Finishes
CHECK_DEADLOCK FALSE
