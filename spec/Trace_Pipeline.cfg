CONSTANTS
  NChrom <- TraceN
  Secs <- TraceSecs
  Window <- TraceN
  ChanCap = 0
SPECIFICATION TSpec
INVARIANTS Deterministic NoStuck EndOK
CONSTRAINT HighWater
POSTCONDITION Accepted
CHECK_DEADLOCK FALSE
