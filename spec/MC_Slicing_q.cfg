CONSTANTS
  MaxRuns = 3
  Short = 7
  LongL = 25
INIT Init
NEXT Next
INVARIANTS IndexOK ChunkOK Emit
CHECK_DEADLOCK FALSE
