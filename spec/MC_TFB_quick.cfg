CONSTANTS
  MaxOps = 2
  Sizes = {0, 1, 2}
  ProducerProgs = {}
  ConsumerProgs = {}
INIT MCInit
NEXT MCNext
INVARIANTS Delivered LenIsWritten NoForbiddenPanic RealIsOrderedImage NoStuckMC Emit
CHECK_DEADLOCK FALSE
