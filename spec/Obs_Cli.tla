-------------------------------- MODULE Obs_Cli --------------------------------
EXTENDS Cli, Json, IOUtils
Obs == ndJsonDeserialize(IOEnv.OBS)
VARIABLE x
Init == x = 0
Next == UNCHANGED x
Verdict(o) ==
  IF o.obs.rc1 # 0 \/ o.obs.rc2 # 0 THEN "tool-failed"
  ELSE IF o.obs.parsed # 1 THEN "unparsable-output"

  ELSE IF o.cfg.kind = "bw" THEN
       CASE o.cfg.restrict = "none"  -> IF RoundTripW(o.items, o.obs.back) THEN "ok" ELSE "roundtrip"
         [] o.cfg.restrict = "chrom" -> IF RestrictedChromW(o.items, o.rc, o.obs.back3) THEN "ok" ELSE "restricted-chrom"
         [] o.cfg.restrict = "range" -> IF RestrictedW(o.items, o.rc, o.rs, o.re, o.obs.back3) THEN "ok" ELSE "restricted-range"
         [] o.cfg.restrict = "start" -> IF RestrictedW(o.items, o.rc, o.rs, o.size, o.obs.back3) THEN "ok" ELSE "restricted-start-only"
         [] o.cfg.restrict = "end"   -> IF RestrictedW(o.items, o.rc, 0, o.re, o.obs.back3) THEN "ok" ELSE "restricted-end-only"
  ELSE CASE o.cfg.restrict = "none"  -> IF RoundTripB(o.items, o.obs.back) THEN "ok" ELSE "roundtrip"
         [] o.cfg.restrict = "chrom" -> IF RestrictedChromB(o.items, o.rc, o.obs.back3) THEN "ok" ELSE "restricted-chrom"
         [] o.cfg.restrict = "range" -> IF RestrictedB(o.items, o.rc, o.rs, o.re, o.obs.back3) THEN "ok" ELSE "restricted-range"
         [] o.cfg.restrict = "start" -> IF RestrictedB(o.items, o.rc, o.rs, o.size, o.obs.back3) THEN "ok" ELSE "restricted-start-only"
         [] o.cfg.restrict = "end"   -> IF RestrictedB(o.items, o.rc, 0, o.re, o.obs.back3) THEN "ok" ELSE "restricted-end-only"
\* mechanism: the internal paths that ran (hook points `path.*` recorded from the real binaries through BIGTOOLS_VERIF_TRACE) are the
\* ones Cli!PathClass selects for the configuration; a difference is model drift (the records are judged above), not a violation
Drift(o) == o.obs.rc1 = 0 /\ o.obs.rc2 = 0 /\
            (\/ o.obs.seen.source # <<IF SourceOf(o.cfg) = "stdin" THEN "serial" ELSE SourceOf(o.cfg)>>
             \/ o.obs.seen.passes # PassesOf(o.cfg)
             \/ o.obs.seen.back # <<BackPathOf(o.cfg)>>)
Post == /\ \A i \in 1..Len(Obs) : LET v == Verdict(Obs[i]) IN (v = "ok" \/ PrintT(<<"BAD", i, v>>)) /\ (~Drift(Obs[i]) \/ PrintT(<<"DRIFT", i>>))
        /\ PrintT(<<"CHECKED", Len(Obs)>>)
=============================================================================
