CONSTANTS
  K = 4
  W = 2
  Fail = {2}
SPECIFICATION Spec
INVARIANTS TypeOK Ordered ExactlyOnce WaitSafe Outcome NoSkippedFailure
PROPERTY Finishes
CHECK_DEADLOCK FALSE
