CONSTANTS
  Kind = "bb"
  DS = 1
INIT Init
NEXT Next
INVARIANT Emit
CHECK_DEADLOCK FALSE
