CONSTANTS
  MinItems = 0
  NC = 2
  L = 3
  MaxItems = 3
  MaxPerChrom = 2
  IPS = {1}
  ZoomLists = "b"
  EndSlack = 1
INIT Init
NEXT Next
INVARIANTS MechSummaryOK MechZoomOK Emit
CHECK_DEADLOCK FALSE
