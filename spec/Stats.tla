--------------------------------- MODULE Stats ---------------------------------
(* C17: per-region statistics of a bigWig (stats_for_bed_item / bigwigaverageoverbed) and the
   per-base values of each region (bigwigvaluesoverbed).  Numbers printed with three decimals are
   carried as integers in thousandths ("_m"); ratios are checked by cross-multiplication. *)
EXTENDS BigWigSpec
Abs(x) == IF x < 0 THEN -x ELSE x

\* its: the stored values <<start, end, v>> of the region's chromosome
Pieces(its, s, e) == Req(its, s, e)
BasesIn(its, s, e) == SeqSum(Map(LAMBDA t : t[2] - t[1], Pieces(its, s, e)))
SumIn(its, s, e) == SeqSum(Map(LAMBDA t : (t[2] - t[1]) * t[3], Pieces(its, s, e)))
\* a quotient num/den printed with 3 decimals as q_m thousandths (round to nearest, either tie direction)
QuotOK(q_m, num, den) == 2 * Abs(q_m * den - 1000 * num) <= den + 1

RowOK(its, s, e, minmax, row) ==
  LET b == BasesIn(its, s, e)
      sm == SumIn(its, s, e)
      vs == {t[3] : t \in Range(Pieces(its, s, e))} IN
  /\ row.size = e - s /\ row.bases = b /\ row.sum_m = 1000 * sm
  /\ (e > s => row.mean0_nan = 0 /\ QuotOK(row.mean0_m, sm, e - s))
  /\ IF b = 0 THEN /\ row.mean_nan = 1 /\ (e > s => row.mean0_m = 0)
                   /\ (minmax => row.min_nan = 1 /\ row.max_nan = 1)
     ELSE /\ row.mean_nan = 0 /\ QuotOK(row.mean_m, sm, b)
          /\ (minmax => row.min_nan = 0 /\ row.max_nan = 0 /\ row.min_m = 1000 * SetMin(vs) /\ row.max_m = 1000 * SetMax(vs))

\* one output row per input row, in input order, with the requested name
RowsOK(items, regions, minmax, rows) ==
  /\ Len(rows) = Len(regions)
  /\ \A i \in 1..Len(regions) :
       LET r == regions[i]
           its == Map(LAMBDA it : <<it[2], it[3], it[4]>>, ItemsOf(items, r[1])) IN
       /\ rows[i].name = i                       \* the name column identifies input row i
       /\ RowOK(its, r[2], r[3], minmax, rows[i])

\* bigwigvaluesoverbed: per-base value of each region (0 where there is no data)
ValuesRowOK(its, s, e, vals) ==
  /\ Len(vals) = e - s
  /\ \A k \in 1..(e - s) : LET b == s + k - 1 IN
       vals[k] = IF \E j \in 1..Len(its) : its[j][1] <= b /\ b < its[j][2]
                 THEN 1000 * its[CHOOSE j \in 1..Len(its) : its[j][1] <= b /\ b < its[j][2]][3] ELSE 0

\* mechanism of the tool's chunk pipeline: chunks are queued in order, N workers (+ the main thread,
\* which helps while it waits) take chunks in any order, results are consumed strictly in chunk
\* order -- so the output is the concatenation of the chunk results in input order.
=============================================================================
