------------------------------ MODULE Obs_BigWig ------------------------------
(* Observation validation (impl -> spec): every line of the ndjson file is one behaviour executed
   on the real bigWig writer + readers.  TLC evaluates the abstract predicate of the property
   named by PROP on each line; a failing line is printed as <<"BAD", index, tag>>. *)
EXTENDS BigWigSpec, Json, IOUtils
Obs == ndJsonDeserialize(IOEnv.OBS)
Prop == IOEnv.PROP
VARIABLE x
Init == x = 0
Next == UNCHANGED x

Triples(items, c) == Map(LAMBDA it : <<Start(it), End(it), Val(it)>>, ItemsOf(items, c))

\* one very long single-chromosome behaviour (items_per_slot at its maximum): plain sequence equality
VLong(o) == IF o.obs.result # "ok" THEN "not-ok"
            ELSE IF o.obs.chroms # << <<1, o.chroms[1]>> >> THEN "chromtable"
            ELSE IF o.obs.read # o.items THEN "roundtrip-long" ELSE "ok"
V01(o) == IF o.long = 1 THEN VLong(o) ELSE
          IF o.obs.result # "ok" THEN "not-ok"
          \* the generic opener must recognise the file as a bigWig with the same chromosome table
          ELSE IF "generic" \in DOMAIN o.obs /\ (o.obs.generic.kind # "bw" \/ o.obs.generic.chroms # o.obs.chroms) THEN "generic-open"
          ELSE IF RoundTripOK(o.items, o.chroms, o.obs) THEN "ok"
          ELSE IF RoundTripKnownF14(o.items, o.chroms, o.obs) THEN "known:F14"
          ELSE IF ~ChromTableOK(o.items, o.chroms, o.obs.chroms) THEN "chromtable"
          ELSE "roundtrip"

QueryBad(o, q) == ~IntervalOK(Triples(o.items, q.c), q.s, q.e, q.iv)
\* (under a position embedding the per-base array would have billions of entries: not requested)
ValuesBad(o, q) == (IF "scale" \in DOMAIN o THEN o.scale = 1 ELSE TRUE) /\ ~ValuesOK(Triples(o.items, q.c), q.s, q.e, q.vals)
V03(o) == IF o.obs.result # "ok" THEN "not-ok"
          ELSE IF o.obs.unmapped = 1 THEN "coordinate-not-from-input"
          ELSE IF \E k \in 1..Len(o.obs.queries) : QueryBad(o, o.obs.queries[k]) THEN "interval"
          ELSE IF \E k \in 1..Len(o.obs.queries) : ValuesBad(o, o.obs.queries[k]) THEN "values"
          ELSE "ok"

V06(o) == IF o.obs.result # "ok" THEN "not-ok"
          ELSE IF o.obs.summary.int # 1 THEN "summary-not-integral"
          ELSE IF ~SummaryOKW(o.items, o.obs.summary) THEN "summary"
          \* the bigWig data count is the number of values or the number of sections (any chunking: between #chromosomes and #values)
          ELSE IF ~(Len(ChromsOf(o.items)) <= o.obs.count /\ o.obs.count <= Len(o.items)) THEN "count"
          ELSE "ok"

ZQBad(o, q) ==
  LET lv == CHOOSE z \in Range(o.obs.zooms) : z.res = q.res
      recs2 == Map(LAMBDA r : <<r[2], r[3]>>, SelectSeq(lv.recs, LAMBDA r : r[1] = q.c))
  IN ~ZoomQueryOK(recs2, q.s, q.e, q.recs)
V07(o) == IF o.obs.result # "ok" THEN "not-ok"
          ELSE IF o.obs.unmapped = 1 THEN "coordinate-not-from-input"
          ELSE IF o.obs.zint # 1 THEN "zoom-not-integral"
          ELSE IF ~LevelsIncreasing(Map(LAMBDA z : z.res, o.obs.zooms)) THEN "levels"
          ELSE IF o.vmap = "intinf" /\ ~ZoomsOKWX(o.items, o.chroms, o.obs.zooms, 3) THEN "zoom-records"
          ELSE IF o.vmap # "intinf" /\ ~ZoomsOKW(o.items, o.chroms, o.obs.zooms) THEN "zoom-records"
          ELSE IF \E k \in 1..Len(o.obs.zqueries) : ZQBad(o, o.obs.zqueries[k]) THEN "zoom-query"
          ELSE "ok"

Verdict(o) == CASE Prop = "C01" -> V01(o) [] Prop = "C03" -> V03(o) [] Prop = "C06" -> V06(o) [] Prop = "C07" -> V07(o)

\* drift: the real tiling differs from the mechanism layer although it is faithful
Drift(o) == Prop = "C07" /\ o.obs.result = "ok" /\ o.opts.zmode = "manual" /\ o.scale = 1 /\ "nomech" \notin DOMAIN o /\ o.vmap = "int" /\ o.obs.zooms # o.mz

Post == /\ \A i \in 1..Len(Obs) : LET v == Verdict(Obs[i]) IN
                                  /\ (v = "ok" \/ PrintT(<<"BAD", i, v>>))
                                  /\ (~Drift(Obs[i]) \/ PrintT(<<"DRIFT", i>>))
        /\ PrintT(<<"CHECKED", Len(Obs)>>)
=============================================================================
