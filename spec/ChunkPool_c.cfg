CONSTANTS
  K = 3
  W = 3
  Fail = {1,3}
SPECIFICATION Spec
INVARIANTS TypeOK Ordered ExactlyOnce WaitSafe Outcome NoSkippedFailure
PROPERTY Finishes
CHECK_DEADLOCK FALSE
