CONSTANTS
  NZooms = 0
  IsBed = TRUE
  HeaderFirst = FALSE
  Stale = FALSE
  SkipBlank = FALSE
SPECIFICATION Spec
INVARIANTS PrefixSafe Complete
CHECK_DEADLOCK FALSE
