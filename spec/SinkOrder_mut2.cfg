CONSTANTS
  NZooms = 1
  IsBed = FALSE
  HeaderFirst = FALSE
  Stale = TRUE
  SkipBlank = TRUE
SPECIFICATION Spec
INVARIANTS StaleSafe
CHECK_DEADLOCK FALSE
