-------------------------------- MODULE Reader --------------------------------
(* One reader instance over a fixed bigWig file, through any history of calls (C03):
   get_interval, values, get_zoom_interval on the file's zoom level, conversion to the caching reader, reopening.
   The caching reader keeps
   a map of R-tree nodes by offset and a map of block contents by (offset,size) that is cleared
   when it holds CacheCap entries before an insert (5000 in the code).  The lazily validated index
   offset is part of the reader's info.  Property: the answer of every call equals the abstract
   answer computed from the file alone -- whatever was called before. *)
EXTENDS RTree, BigWigSpec

CONSTANTS Kind,       \* "bw": a bigWig reader (answers are the stored values clipped to the range); "bb": a bigBed reader (answers are the
                      \* stored entries <<start, end, id>> touching the range, unclipped; there is no per-base `values` call)
          Items,      \* the stored values / entries <<chrom, start, end, value or id>>, one block each (items_per_slot = 1)
          Fanout,     \* block_size of the index
          CacheCap,
          Queries,    \* set of <<chrom, s, e>>
          ZRecs       \* the records <<chrom, start, end>> of the file's zoom level, one block each (<<>>: no zoom level);
                      \* its index is a second R-tree in the same file: the caching reader keeps nodes and blocks of BOTH
                      \* trees in the same two maps (keyed by file offset), under the same capacity

BB == INSTANCE BigBedSpec
Secs == Map(LAMBDA it : <<it[1], it[2], it[3]>>, Items)
Img == Image(Secs, Fanout)
ZImg == Image(ZRecs, Fanout)
NI == Len(Items)
\* block keys: 1..NI are data blocks, NI + k is the k-th zoom block; zoom index nodes are kept under negated offsets
Content(k) == IF k <= NI THEN Items[k] ELSE LET z == ZRecs[k - NI] IN <<z[1], z[2], z[3], 0>>

VARIABLES mode,        \* "plain" | "cached"
          nodeCache,   \* set of node offsets held by the caching reader
          blockCache,  \* function: block number -> content (the item) held by the caching reader
          idxKnown,    \* the index header has been validated (full_index_tree_offset is Some)
          last,        \* [op, q, ans] of the last call
          steps
rvars == <<mode, nodeCache, blockCache, idxKnown, last, steps>>

\* nodes visited by the DFS for a query
RECURSIVE VisitedFrom(_, _, _, _, _, _)
VisitedFrom(img, off, qc, qs, qe, fuel) ==
  IF fuel = 0 \/ off \notin DOMAIN img THEN {}
  ELSE LET nd == img[off]
           hits == SelectSeq(nd.items, LAMBDA it : Overlaps(qc, qs, qe, it[1])) IN
       {off} \cup (IF nd.leaf THEN {} ELSE UNION {VisitedFrom(img, hits[i][2], qc, qs, qe, fuel - 1) : i \in 1..Len(hits)})
Visited(q) == VisitedFrom(Img, HeaderSize, q[1], q[2], q[3], 12)
Blocks(q) == Search(Img, q[1], q[2], q[3])            \* block numbers in file order
ZVisited(q) == {0 - o : o \in VisitedFrom(ZImg, HeaderSize, q[1], q[2], q[3], 12)}
ZBlocks(q) == Map(LAMBDA k : NI + k, Search(ZImg, q[1], q[2], q[3]))

\* reading blocks through the cache: returns <<cache', contents read>>
RECURSIVE ReadBlocks(_, _, _)
ReadBlocks(cache, bs, acc) ==
  IF bs = <<>> THEN <<cache, acc>>
  ELSE LET k == Head(bs) IN
       IF k \in DOMAIN cache THEN ReadBlocks(cache, Tail(bs), Append(acc, cache[k]))
       ELSE LET c0 == IF Cardinality(DOMAIN cache) >= CacheCap THEN <<>> ELSE cache
                c1 == [x \in (DOMAIN c0) \cup {k} |-> IF x = k THEN Content(k) ELSE c0[x]] IN
            ReadBlocks(c1, Tail(bs), Append(acc, Content(k)))
EmptyCache == [x \in {} |-> <<>>]

\* filter + clip of get_block_values on the contents that were read
Answer(contents, q) ==
  IF Kind = "bb"
  THEN Map(LAMBDA it : <<it[2], it[3], it[4]>>, SelectSeq(contents, LAMBDA it : it[1] = q[1] /\ it[3] >= q[2] /\ it[2] <= q[3]))   \* get_block_entries
  ELSE LET mine == SelectSeq(contents, LAMBDA it : it[1] = q[1] /\ it[3] > q[2] /\ it[2] < q[3]) IN
       Map(LAMBDA it : <<Max2(it[2], q[2]), Min2(it[3], q[3]), it[4]>>, mine)

\* get_zoom_block_values: the records of the blocks read that touch [s, e] on the chromosome, unclipped
ZAnswer(contents, q) ==
  Map(LAMBDA it : <<it[2], it[3]>>, SelectSeq(contents, LAMBDA it : it[1] = q[1] /\ it[3] >= q[2] /\ it[2] <= q[3]))

Init == /\ mode = "plain" /\ nodeCache = {} /\ blockCache = EmptyCache /\ idxKnown = FALSE
        /\ last = [op |-> "none", q |-> <<0, 0, 0>>, ans |-> <<>>] /\ steps = 0

DoQuery(op, q) ==
  /\ idxKnown' = TRUE
  /\ IF mode = "cached"
       THEN LET r == ReadBlocks(blockCache, Blocks(q), <<>>) IN
            /\ nodeCache' = nodeCache \cup Visited(q) /\ blockCache' = r[1]
            /\ last' = [op |-> op, q |-> q, ans |-> Answer(r[2], q)]
       ELSE /\ UNCHANGED <<nodeCache, blockCache>>
            /\ last' = [op |-> op, q |-> q, ans |-> Answer(Map(LAMBDA k : Items[k], Blocks(q)), q)]
  /\ steps' = steps + 1 /\ UNCHANGED mode
Interval(q) == DoQuery("interval", q)
Values(q) == Kind = "bw" /\ DoQuery("values", q)
\* a zoom query goes through the SAME reader: same lazily validated info, same two caches
Zoom(q) ==
  /\ ZRecs # <<>>
  /\ IF mode = "cached"
       THEN LET r == ReadBlocks(blockCache, ZBlocks(q), <<>>) IN
            /\ nodeCache' = nodeCache \cup ZVisited(q) /\ blockCache' = r[1]
            /\ last' = [op |-> "zoom", q |-> q, ans |-> ZAnswer(r[2], q)]
       ELSE /\ UNCHANGED <<nodeCache, blockCache>>
            /\ last' = [op |-> "zoom", q |-> q, ans |-> ZAnswer(Map(Content, ZBlocks(q)), q)]
  /\ steps' = steps + 1 /\ UNCHANGED <<mode, idxKnown>>
ToCached == /\ mode = "plain" /\ mode' = "cached" /\ nodeCache' = {} /\ blockCache' = EmptyCache
            /\ last' = [op |-> "cached", q |-> <<0, 0, 0>>, ans |-> <<>>] /\ steps' = steps + 1 /\ UNCHANGED idxKnown
Reopen == /\ last' = [op |-> "reopen", q |-> <<0, 0, 0>>, ans |-> <<>>] /\ steps' = steps + 1
          /\ UNCHANGED <<mode, nodeCache, blockCache, idxKnown>>      \* caches and info are cloned

\* a query that names a chromosome the file does not have fails before anything is read: an error, and nothing changes
BadChrom == /\ last' = [op |-> "badchrom", q |-> <<0, 0, 0>>, ans |-> <<>>] /\ steps' = steps + 1
            /\ UNCHANGED <<mode, nodeCache, blockCache, idxKnown>>
Next == (\E q \in Queries : Interval(q) \/ Values(q) \/ Zoom(q)) \/ ToCached \/ Reopen \/ BadChrom

\* the abstract answer: from the file alone
TriplesOf(c) == Map(LAMBDA it : <<it[2], it[3], it[4]>>, SelectSeq(Items, LAMBDA it : it[1] = c))
HistoryIndependent ==
  last.op \in {"interval", "values"} =>
     IF Kind = "bb" THEN BB!EntryQueryOK(TriplesOf(last.q[1]), last.q[2], last.q[3], last.ans)
     ELSE IntervalOK(TriplesOf(last.q[1]), last.q[2], last.q[3], last.ans)
ZPairs(c) == Map(LAMBDA z : <<z[2], z[3]>>, SelectSeq(ZRecs, LAMBDA z : z[1] = c))
ZoomHistoryIndependent ==
  last.op = "zoom" => ZoomQueryOK(ZPairs(last.q[1]), last.q[2], last.q[3], last.ans)
CacheCoherent == /\ \A k \in DOMAIN blockCache : blockCache[k] = Content(k)
                 /\ nodeCache \subseteq (DOMAIN Img \cup {0 - o : o \in DOMAIN ZImg})
                 /\ Cardinality(DOMAIN blockCache) <= CacheCap
=============================================================================
