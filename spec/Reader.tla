-------------------------------- MODULE Reader --------------------------------
(* One reader instance over a fixed bigWig file, through any history of calls (C03):
   get_interval, values, conversion to the caching reader, reopening.  The caching reader keeps
   a map of R-tree nodes by offset and a map of block contents by (offset,size) that is cleared
   when it holds CacheCap entries before an insert (5000 in the code).  The lazily validated index
   offset is part of the reader's info.  Property: the answer of every call equals the abstract
   answer computed from the file alone -- whatever was called before. *)
EXTENDS RTree, BigWigSpec

CONSTANTS Items,      \* the stored values <<chrom, start, end, value>>, one block each (items_per_slot = 1)
          Fanout,     \* block_size of the index
          CacheCap,
          Queries     \* set of <<chrom, s, e>>

Secs == Map(LAMBDA it : <<it[1], it[2], it[3]>>, Items)
Img == Image(Secs, Fanout)

VARIABLES mode,        \* "plain" | "cached"
          nodeCache,   \* set of node offsets held by the caching reader
          blockCache,  \* function: block number -> content (the item) held by the caching reader
          idxKnown,    \* the index header has been validated (full_index_tree_offset is Some)
          last,        \* [op, q, ans] of the last call
          steps
rvars == <<mode, nodeCache, blockCache, idxKnown, last, steps>>

\* nodes visited by the DFS for a query
RECURSIVE VisitedFrom(_, _, _, _, _)
VisitedFrom(off, qc, qs, qe, fuel) ==
  IF fuel = 0 \/ off \notin DOMAIN Img THEN {}
  ELSE LET nd == Img[off]
           hits == SelectSeq(nd.items, LAMBDA it : Overlaps(qc, qs, qe, it[1])) IN
       {off} \cup (IF nd.leaf THEN {} ELSE UNION {VisitedFrom(hits[i][2], qc, qs, qe, fuel - 1) : i \in 1..Len(hits)})
Visited(q) == VisitedFrom(HeaderSize, q[1], q[2], q[3], 12)
Blocks(q) == Search(Img, q[1], q[2], q[3])            \* block numbers in file order

\* reading blocks through the cache: returns <<cache', contents read>>
RECURSIVE ReadBlocks(_, _, _)
ReadBlocks(cache, bs, acc) ==
  IF bs = <<>> THEN <<cache, acc>>
  ELSE LET k == Head(bs) IN
       IF k \in DOMAIN cache THEN ReadBlocks(cache, Tail(bs), Append(acc, cache[k]))
       ELSE LET c0 == IF Cardinality(DOMAIN cache) >= CacheCap THEN <<>> ELSE cache
                c1 == [x \in (DOMAIN c0) \cup {k} |-> IF x = k THEN Items[k] ELSE c0[x]] IN
            ReadBlocks(c1, Tail(bs), Append(acc, Items[k]))
EmptyCache == [x \in {} |-> <<>>]

\* filter + clip of get_block_values on the contents that were read
Answer(contents, q) ==
  LET mine == SelectSeq(contents, LAMBDA it : it[1] = q[1] /\ it[3] > q[2] /\ it[2] < q[3]) IN
  Map(LAMBDA it : <<Max2(it[2], q[2]), Min2(it[3], q[3]), it[4]>>, mine)

Init == /\ mode = "plain" /\ nodeCache = {} /\ blockCache = EmptyCache /\ idxKnown = FALSE
        /\ last = [op |-> "none", q |-> <<0, 0, 0>>, ans |-> <<>>] /\ steps = 0

DoQuery(op, q) ==
  /\ idxKnown' = TRUE
  /\ IF mode = "cached"
       THEN LET r == ReadBlocks(blockCache, Blocks(q), <<>>) IN
            /\ nodeCache' = nodeCache \cup Visited(q) /\ blockCache' = r[1]
            /\ last' = [op |-> op, q |-> q, ans |-> Answer(r[2], q)]
       ELSE /\ UNCHANGED <<nodeCache, blockCache>>
            /\ last' = [op |-> op, q |-> q, ans |-> Answer(Map(LAMBDA k : Items[k], Blocks(q)), q)]
  /\ steps' = steps + 1 /\ UNCHANGED mode
Interval(q) == DoQuery("interval", q)
Values(q) == DoQuery("values", q)
ToCached == /\ mode = "plain" /\ mode' = "cached" /\ nodeCache' = {} /\ blockCache' = EmptyCache
            /\ last' = [op |-> "cached", q |-> <<0, 0, 0>>, ans |-> <<>>] /\ steps' = steps + 1 /\ UNCHANGED idxKnown
Reopen == /\ last' = [op |-> "reopen", q |-> <<0, 0, 0>>, ans |-> <<>>] /\ steps' = steps + 1
          /\ UNCHANGED <<mode, nodeCache, blockCache, idxKnown>>      \* caches and info are cloned

Next == (\E q \in Queries : Interval(q) \/ Values(q)) \/ ToCached \/ Reopen

\* the abstract answer: from the file alone
TriplesOf(c) == Map(LAMBDA it : <<it[2], it[3], it[4]>>, SelectSeq(Items, LAMBDA it : it[1] = c))
HistoryIndependent ==
  last.op \in {"interval", "values"} => IntervalOK(TriplesOf(last.q[1]), last.q[2], last.q[3], last.ans)
CacheCoherent == /\ \A k \in DOMAIN blockCache : blockCache[k] = Items[k]
                 /\ nodeCache \subseteq DOMAIN Img
                 /\ Cardinality(DOMAIN blockCache) <= CacheCap
=============================================================================
