CONSTANTS
  AnyOrder = FALSE
  MinItems = 0
  NC = 1
  L = 7
  MaxItems = 4
  MaxPerChrom = 4
  Vals = {1, 2}
  IPS = {1, 2, 3}
  ZoomLists = "a"
INIT Init
NEXT Next
INVARIANTS MechRoundTrip MechZoom Emit
CHECK_DEADLOCK FALSE
