------------------------------ MODULE Obs_Slicing ------------------------------
EXTENDS Slicing, Json, IOUtils
Obs == ndJsonDeserialize(IOEnv.OBS)
VARIABLE x
Init == x = 0
Next == UNCHANGED x
Verdict(o) ==
  CASE o.mode = "index"  -> IF o.obs.result # "ok" THEN "index-error"
                            ELSE IF ~IndexExact(o.lines, o.obs) THEN "index-not-exact" ELSE "ok"
    [] o.mode = "chunks" -> IF o.obs.result # "ok" THEN "chunks-error"
                            ELSE IF ~ChunksOK(o.lines, o.obs.chunks) THEN "chunks" ELSE "ok"
    [] o.mode = "view"   -> IF o.obs.result # "ok" THEN "view-error-or-panic"
                            ELSE IF o.obs.steps # ViewRun(o.n, o.a, o.b, o.ops) THEN "view-differs-from-isolated-range" ELSE "ok"
Drift(o) == \/ (o.mode = "index" /\ o.obs.result = "ok" /\ o.obs.some = 1 /\ o.obs.idx # IndexMech(o.lines).idx)
            \/ (o.mode = "chunks" /\ o.obs.result = "ok" /\ o.obs.chunks # ChunksMech(o.lines, o.n))
Post == /\ \A i \in 1..Len(Obs) : LET v == Verdict(Obs[i]) IN
                                  /\ (v = "ok" \/ PrintT(<<"BAD", i, v>>))
                                  /\ (~Drift(Obs[i]) \/ PrintT(<<"DRIFT", i>>))
        /\ PrintT(<<"CHECKED", Len(Obs)>>)
=============================================================================
