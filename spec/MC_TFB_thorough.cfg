CONSTANTS
  MaxOps = 4
  Sizes = {0, 1, 3}
  ProducerProgs = {}
  ConsumerProgs = {}
INIT MCInit
NEXT MCNext
INVARIANTS Delivered LenIsWritten NoForbiddenPanic RealIsOrderedImage NoStuckMC Emit
CHECK_DEADLOCK FALSE
