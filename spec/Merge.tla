-------------------------------- MODULE Merge --------------------------------
(* C15: merging sorted bigWig value streams (utils/merge.rs), gap filling (utils/fill.rs) and the
   pairwise merge_into.  A value is <<start, end, v>>; a stream is a sorted sequence of disjoint
   values.  W is the size of the merger's work window (DATA_SIZE = 50000 in the code; the harness
   embeds model positions so that model window edges fall on real ones). *)
EXTENDS BBICommon

HasAt(st, b) == \E i \in 1..Len(st) : st[i][1] <= b /\ b < st[i][2]
AtOf(st, b) == st[CHOOSE i \in 1..Len(st) : st[i][1] <= b /\ b < st[i][2]][3]
Hi(streams) == SetMax({0} \cup UNION {{st[i][2] : i \in 1..Len(st)} : st \in Range(streams)})
SumAt(streams, b) == SeqSum(Map(LAMBDA st : IF HasAt(st, b) THEN AtOf(st, b) ELSE 0, streams))
AnyAt(streams, b) == \E k \in 1..Len(streams) : HasAt(streams[k], b)

SortedDisjoint(out) == /\ \A i \in 1..Len(out) : out[i][1] < out[i][2]
                       /\ \A i \in 2..Len(out) : out[i-1][2] <= out[i][1]
\* the per-base signal is preserved: sum where it is non-zero, absent elsewhere
MergeOK(streams, out) ==
  /\ SortedDisjoint(out)
  /\ \A b \in 0..Max2(Hi(streams), Hi(<<out>>)) :
       IF SumAt(streams, b) # 0 THEN HasAt(out, b) /\ AtOf(out, b) = SumAt(streams, b)
       ELSE ~HasAt(out, b)

\* ---- mechanism: ValueIter.  Per window of W bases: add up, run-length encode, drop zero runs.
\* The last run of a window is held back (last_val) and re-inserted in front of the next window's
\* runs -- which changes when values are emitted, not which.
RECURSIVE RLE(_, _, _, _)
RLE(f, lo, hi, acc) ==       \* f : lo..hi-1 -> sum ; acc = runs so far
  IF lo >= hi THEN acc
  ELSE LET v == f[lo]
           ext == Len(acc) > 0 /\ acc[Len(acc)][2] = lo /\ acc[Len(acc)][3] = v IN
       IF ext THEN RLE(f, lo + 1, hi, [acc EXCEPT ![Len(acc)] = <<@[1], lo + 1, v>>])
       ELSE RLE(f, lo + 1, hi, Append(acc, <<lo, lo + 1, v>>))
WindowRuns(streams, W, k) ==
  LET lo == k * W
      f == [b \in lo..(lo + W - 1) |-> SumAt(streams, b)] IN
  SelectSeq(RLE(f, lo, lo + W, <<>>), LAMBDA r : r[3] # 0)
RECURSIVE MergeWindows(_, _, _, _)
MergeWindows(streams, W, k, n) == IF k >= n THEN <<>> ELSE WindowRuns(streams, W, k) \o MergeWindows(streams, W, k + 1, n)
MergeMech(streams, W) == MergeWindows(streams, W, 0, (Hi(streams) + W - 1) \div W)

\* ---- the merge tool: clip, adjust, threshold applied to the per-base sum, every base from 0 ------------
ToolValueAt(streams, hasClip, clip, adjust, thr, b) ==      \* <<v>> or <<>> (absent)
  IF AnyAt(streams, b) /\ SumAt(streams, b) # 0
    THEN LET v == (IF hasClip THEN Min2(clip, SumAt(streams, b)) ELSE SumAt(streams, b)) + adjust IN IF v > thr THEN <<v>> ELSE <<>>
    ELSE <<>>
ToolOK(streams, hasClip, clip, adjust, thr, out) ==
  /\ SortedDisjoint(out)
  /\ \A b \in 0..Max2(Hi(streams), Hi(<<out>>)) :
       LET exp == ToolValueAt(streams, hasClip, clip, adjust, thr, b) IN
       IF exp = <<>> THEN ~HasAt(out, b) ELSE HasAt(out, b) /\ AtOf(out, b) = exp[1]

\* ---- gap filling -------------------------------------------------------------------------
FillOK(st, hasRange, rs, re, out) ==
  LET lo == IF hasRange THEN rs ELSE 0
      hi == IF hasRange THEN Max2(re, Hi(<<st>>)) ELSE Hi(<<st>>)
      first == IF st = <<>> THEN lo ELSE Min2(lo, st[1][1]) IN
  /\ \A i \in 1..Len(out) : out[i][1] < out[i][2]
  /\ \A i \in 2..Len(out) : out[i-1][2] = out[i][1]                        \* gapless tiling
  /\ IsSubseq(st, out)                                                     \* keeps every original value
  /\ \A i \in 1..Len(out) : (\E j \in 1..Len(st) : st[j] = out[i]) \/ out[i][3] = 0   \* adds only zeros
  /\ (out # <<>> => out[1][1] = first /\ out[Len(out)][2] = hi)
  /\ (out = <<>> => first >= hi)

\* ---- merge_into(one, two) -------------------------------------------------------------------
\* the returned pieces, in order, tile [min start, max end) and carry one+two on the overlap,
\* the single operand elsewhere (adjacent pieces of equal value may be fused)
PieceSignalOK(one, two, pieces) ==
  LET lo == Min2(one[1], two[1])
      hi == Max2(one[2], two[2])
      expect(b) == (IF one[1] <= b /\ b < one[2] THEN one[3] ELSE 0) + (IF two[1] <= b /\ b < two[2] THEN two[3] ELSE 0) IN
  /\ SortedDisjoint(pieces) /\ pieces[1][1] = lo /\ pieces[Len(pieces)][2] = hi
  /\ \A i \in 2..Len(pieces) : pieces[i-1][2] = pieces[i][1]
  /\ \A b \in lo..(hi - 1) : AtOf(pieces, b) = expect(b)
=============================================================================
