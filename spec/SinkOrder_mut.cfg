CONSTANTS
  NZooms = 1
  IsBed = FALSE
  HeaderFirst = TRUE
  Stale = FALSE
  SkipBlank = FALSE
SPECIFICATION Spec
INVARIANTS PrefixSafe
CHECK_DEADLOCK FALSE
