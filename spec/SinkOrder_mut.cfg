CONSTANTS
  NZooms = 1
  IsBed = FALSE
  HeaderFirst = TRUE
SPECIFICATION Spec
INVARIANTS PrefixSafe
CHECK_DEADLOCK FALSE
