------------------------------- MODULE MC_View -------------------------------
(* Every operation sequence of bounded length on a view [a, b) of an N-byte file.  Each complete
   sequence is a behaviour; the expected returns/bytes are the clamping cursor of Slicing!ViewRun. *)
EXTENDS Slicing, Json
CONSTANTS N, Windows, MaxOps, ReadSizes, StartArgs, CurArgs, EndArgs
VARIABLES win, ops
WindowsQ == {<<0, 12>>, <<3, 8>>, <<5, 5>>, <<4, 14>>, <<2, 9999>>, <<12, 12>>}
WindowsT == WindowsQ \cup {<<0, 5>>, <<7, 12>>, <<11, 9999>>}
CurArgsD == {-20, -2, 0, 1, 20}
EndArgsD == {-20, -3, 0, 2}
OpSet == ({"read"} \X ReadSizes) \cup ({"start"} \X StartArgs) \cup ({"cur"} \X CurArgs) \cup ({"end"} \X EndArgs)
Init == win \in Windows /\ ops = <<>>
Next == /\ Len(ops) < MaxOps /\ \E o \in OpSet : ops' = Append(ops, o) /\ UNCHANGED win
\* the reference never leaves the window and never returns bytes from outside it
InWindow == \A r \in Range(ViewRun(N, win[1], win[2], ops)) : /\ r[1] >= 0
                                                                /\ \A p \in Range(r[2]) : win[1] <= p /\ p < Min2(win[2], N)
Emit == Len(ops) = MaxOps => PrintT(<<"REPLAY", ToJson([n |-> N, a |-> win[1], b |-> win[2], ops |-> ops])>>)
=============================================================================
