CONSTANTS
  N = 20
  B = 4
  Shapes = {"mono1", "multi", "nested"}
INIT Init
NEXT Next
INVARIANTS PtrOK ContainOK SearchOK Emit
CHECK_DEADLOCK FALSE
