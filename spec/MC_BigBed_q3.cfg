CONSTANTS
  AnyOrder = TRUE
  MinItems = 0
  NC = 3
  L = 2
  MaxItems = 3
  MaxPerChrom = 1
  IPS = {1, 2}
  ZoomLists = "c"
  EndSlack = 1
INIT Init
NEXT Next
INVARIANTS MechSummaryOK MechZoomOK Emit
CHECK_DEADLOCK FALSE
