--------------------------- MODULE MC_TFB_refine ---------------------------
(* TempFileBuffer.tla (sequences of byte tokens, bounded programmes, trace-validated against the real
   buffer) REFINES the length abstraction TFBInd.tla, whose inductive invariant Apalache proves for any
   number and size of writes: every behaviour of the concrete specification with the consumer programme
   switch ; await_real_file maps, step by step, to a behaviour (or stuttering) of TFBInd. *)
EXTENDS TempFileBuffer, Integers
CONSTANTS MaxOps, Sizes
Ops == Sizes \cup {Flush}
PP == UNION { [1..k -> Ops] : k \in 0..MaxOps }
CP == {"switch_await"}
LenOr(o) == IF IsSome(o) THEN Len(Get(o)) ELSE -1
I == INSTANCE TFBInd WITH
       PreLen <- Len(Pre), MaxN <- 8,
       bstate <- bstate, stagedLen <- Len(staged), pdest <- LenOr(pdest), mailbox <- LenOr(mailbox),
       closedSet <- (IsSome(closed) /\ CCur # "end"),
       closedSt <- (IF IsSome(closed) THEN Get(closed).st ELSE "NotStarted"),
       closedStaged <- (IF IsSome(closed) THEN Len(Get(closed).staged) ELSE 0),
       closedDest <- (IF IsSome(closed) THEN LenOr(Get(closed).dest) ELSE -1),
       written <- Len(written), dropped <- (PCur = EndOp),
       cpc <- (CASE cpc = 1 -> "start" [] cpc = 2 -> "switched" [] OTHER -> "done"),
       cdest <- LenOr(cdest), result <- (IF cres.tag = "file" THEN Len(cres.val) ELSE -1)
Refines == I!Spec
AbstractInv == I!IndInv
=============================================================================
