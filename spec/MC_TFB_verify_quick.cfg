CONSTANTS
  MaxOps = 3
  Sizes = {0, 1, 2}
  ProducerProgs <- PP
  ConsumerProgs <- CP
SPECIFICATION Spec
INVARIANTS Delivered LenIsWritten NoForbiddenPanic RealIsOrderedImage NoStuck
PROPERTIES Terminates AwaitReturns
CHECK_DEADLOCK FALSE
