---------------------------- MODULE ChunkPoolInd ----------------------------
(* ChunkPool.tla with the queue of ranges 1..K represented by the index of its head (the queue is filled once, in
   order, before any thread runs, and is only ever popped at the front: it is always <<qh, qh+1, .., K>>), and without
   the output history.  Everything else is as in ChunkPool.tla; MC_ChunkPool_refine checks with TLC that ChunkPool
   refines this module under qh = K + 1 - Len(queue).  Here ANY number of ranges K and worker threads W is covered:
   IndInv is inductive (ChunkPoolIndProof.tla, TLAPS) and implies WaitSafe - the main thread only ever blocks on a result
   that is there or that a worker is computing - and ExactlyOnce. *)
EXTENDS Integers
CONSTANTS K, W, Fail
Chunks == 1..K
Threads == 0..W
VARIABLES qh, slot, pc, cur, head
vars == <<qh, slot, pc, cur, head>>

Init == /\ qh = 1 /\ slot = [c \in Chunks |-> "none"]
        /\ pc = [t \in Threads |-> IF t = 0 THEN (IF K = 0 THEN "done" ELSE "try") ELSE "recv"]
        /\ cur = [t \in Threads |-> 0] /\ head = 1

Recv(t) == /\ pc[t] = IF t = 0 THEN "recvq" ELSE "recv"
           /\ IF qh <= K
                THEN /\ cur' = [cur EXCEPT ![t] = qh] /\ qh' = qh + 1 /\ pc' = [pc EXCEPT ![t] = "work"]
                ELSE /\ pc' = [pc EXCEPT ![t] = IF t = 0 THEN "wait" ELSE "exit"] /\ UNCHANGED <<cur, qh>>
           /\ UNCHANGED <<slot, head>>
Send(t) == /\ pc[t] = "work"
           /\ slot[cur[t]] = "none"
           /\ slot' = [slot EXCEPT ![cur[t]] = IF cur[t] \in Fail THEN "err" ELSE "ok"]
           /\ pc' = [pc EXCEPT ![t] = IF t = 0 THEN "try" ELSE "recv"] /\ cur' = [cur EXCEPT ![t] = 0]
           /\ UNCHANGED <<qh, head>>
Consume == /\ slot[head] \in {"ok", "err"}
           /\ slot' = [slot EXCEPT ![head] = "taken"]
           /\ IF slot[head] = "err" THEN pc' = [pc EXCEPT ![0] = "error"] /\ UNCHANGED head
              ELSE /\ head' = head + 1
                   /\ pc' = [pc EXCEPT ![0] = IF head = K THEN "done" ELSE "try"]
           /\ UNCHANGED <<qh, cur>>
MTry == /\ pc[0] = "try"
        /\ IF slot[head] \in {"ok", "err"} THEN Consume
           ELSE pc' = [pc EXCEPT ![0] = "recvq"] /\ UNCHANGED <<qh, slot, cur, head>>
MWait == pc[0] = "wait" /\ Consume
Thread(t) == Recv(t) \/ Send(t) \/ (t = 0 /\ (MTry \/ MWait))
Next == \E t \in Threads : Thread(t)
Spec == Init /\ [][Next]_vars

Active == pc[0] \in {"try", "recvq", "work", "wait"}
IndInv ==
  /\ qh \in 1..(K + 1) /\ head \in 1..(K + 1)
  /\ slot \in [Chunks -> {"none", "ok", "err", "taken"}]
  /\ pc \in [Threads -> {"recv", "work", "exit", "try", "recvq", "wait", "done", "error"}]
  /\ cur \in [Threads -> 0..K]
  /\ \A t \in Threads : pc[t] = "work" => (cur[t] \in Chunks /\ cur[t] < qh /\ slot[cur[t]] = "none")
  /\ \A t, u \in Threads : (t # u /\ pc[t] = "work" /\ pc[u] = "work") => cur[t] # cur[u]
  /\ \A c \in Chunks : c >= qh => slot[c] = "none"
  /\ \A c \in Chunks : (c < qh /\ slot[c] = "none") => \E t \in Threads : pc[t] = "work" /\ cur[t] = c
  /\ \A c \in Chunks : slot[c] = "taken" <=> (c < head \/ (c = head /\ pc[0] = "error"))
  /\ (pc[0] = "wait" => qh = K + 1)
  /\ (Active => head <= K)
  /\ (pc[0] = "error" => head <= K)
  /\ (pc[0] = "done" => head = K + 1)
  /\ pc[0] \in {"try", "recvq", "work", "wait", "done", "error"}
  /\ \A t \in Threads : t # 0 => pc[t] \in {"recv", "work", "exit"}

\* blocking on a result is safe: it is there, or a worker is computing it
WaitSafe == pc[0] = "wait" => (qh = K + 1 /\ (slot[head] \in {"ok", "err"} \/ \E t \in Threads : t # 0 /\ pc[t] = "work" /\ cur[t] = head))
\* a range is still queued, or held by exactly one thread, or computed
ExactlyOnce == \A c \in Chunks :
                 /\ \A t, u \in Threads : (pc[t] = "work" /\ cur[t] = c /\ pc[u] = "work" /\ cur[u] = c) => t = u
                 /\ (c >= qh => slot[c] = "none" /\ ~\E t \in Threads : pc[t] = "work" /\ cur[t] = c)
                 /\ ((c < qh /\ slot[c] = "none") => \E t \in Threads : pc[t] = "work" /\ cur[t] = c)
=============================================================================
