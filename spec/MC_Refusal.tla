------------------------------ MODULE MC_Refusal ------------------------------
(* Enumerates EVERY stream of at most MaxLen items over NC known chromosomes of length L (plus the
   unknown chromosome NC+1), positions 0..L+1 — valid, degenerate (only zero-length items) and
   invalid alike — so every violation class occurs at every position (first / middle / last item,
   first / middle / last chromosome).  Each stream is one behaviour (one initial state). *)
EXTENDS Refusal, Json
CONSTANTS NC, L, MaxLen, Kinds, WithMalformed
VARIABLES stream, kind
Item == (1..(NC + 1)) \X (0..(L + 1)) \X (0..(L + 1)) \X {1} \X (IF WithMalformed THEN {0, 1} ELSE {0})
Streams == UNION { [1..n -> Item] : n \in 0..MaxLen }
Init == stream \in Streams /\ kind \in Kinds
Next == UNCHANGED <<stream, kind>>
Sizes == [c \in 1..NC |-> L]
\* vacuity guards are computed by the runner from the emitted `must` flags
Emit == PrintT(<<"REPLAY", ToJson([items |-> stream, kind |-> kind, NC |-> NC, L |-> L,
                                   must |-> IF MustRefuse(kind, stream, Sizes, NC, TRUE) THEN 1 ELSE 0,
                                   mustu |-> IF MustRefuse(kind, stream, Sizes, NC, FALSE) THEN 1 ELSE 0])>>)
=============================================================================
