CONSTANTS
  K = 5
  W = 2
  Fail = {}
SPECIFICATION Spec
INVARIANTS AbsInv QueueShape
PROPERTY AbsSpec
CHECK_DEADLOCK FALSE
