------------------------------ MODULE Obs_Binning ------------------------------
EXTENDS Binning, Json, IOUtils
Obs == ndJsonDeserialize(IOEnv.OBS)
VARIABLE x
Init == x = 0
Next == UNCHANGED x
Finite(f) == f # NaNCode
Verdict(o) ==
  \* a request made through a reader whose read() starts failing during the call (o.fault = 1): raising is right; an array
  \* that IS returned must be the documented one all the same (a failure must not pass for "no data")
  IF "fault" \in DOMAIN o /\ o.fault = 1 /\ o.obs.result = "exception" THEN "ok"
  ELSE IF o.obs.result # "ok" THEN "values-call-failed"
  ELSE IF "exact" \in DOMAIN o /\ o.exact = 0 THEN
       (IF o.bins = 0 THEN (IF PerBaseOK(o.kind, o.items, o.len, o.s, o.e, o.missing, o.oob, o.obs.out) THEN "ok" ELSE "per-base")
        ELSE IF Finite(o.missing) /\ Finite(o.oob) /\ ~ZoomModeOK(o.kind, o.items, o.len, o.s, o.e, o.bins, o.missing, o.oob, o.obs.out) THEN "default-mode-bin-outside-data-range"
        ELSE IF Finite(o.missing) /\ (Finite(o.oob) \/ (o.s >= 0 /\ o.e <= o.len)) /\ \E k \in 1..Len(o.obs.out) : o.obs.out[k][2] = 1 THEN "default-mode-nan"
        ELSE "ok")
  ELSE IF o.bins = 0 THEN (IF PerBaseOK(o.kind, o.items, o.len, o.s, o.e, o.missing, o.oob, o.obs.out) THEN "ok" ELSE "per-base")
  ELSE IF (o.e - o.s) % o.bins = 0
       THEN (IF ExactBinsOK(o.kind, o.items, o.len, o.s, o.e, o.bins, o.stat, o.missing, o.oob, o.obs.out) THEN "ok" ELSE "exact-bins")
  ELSE IF Finite(o.missing) /\ (Finite(o.oob) \/ (o.s >= 0 /\ o.e <= o.len)) /\ \E k \in 1..Len(o.obs.out) : o.obs.out[k][2] = 1 THEN "nan-for-finite-data"
  ELSE IF Finite(o.missing) /\ Finite(o.oob) /\ ~AnyWidthOK(o.kind, o.items, o.len, o.s, o.e, o.bins, o.missing, o.oob, o.obs.out) THEN "bin-outside-data-range"
  ELSE "ok"
Post == /\ \A i \in 1..Len(Obs) : LET v == Verdict(Obs[i]) IN (v = "ok" \/ PrintT(<<"BAD", i, v>>))
        /\ PrintT(<<"CHECKED", Len(Obs)>>)
=============================================================================
