--------------------------- MODULE MC_TFB_verify ---------------------------
(* Verification instance (no history variable): safety over every interleaving and liveness
   under weak fairness, at larger constants than the emission instance. *)
EXTENDS TempFileBuffer
CONSTANTS MaxOps, Sizes
Ops == Sizes \cup {Flush}
PP == UNION { [1..k -> Ops] : k \in 0..MaxOps }
CP == {"switch_await", "ecw", "len_ecw", "len_len_ecw"}
=============================================================================
