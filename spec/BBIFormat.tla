------------------------------ MODULE BBIFormat ------------------------------
(* C09: the abstract image of a BBI file as an independent decoder sees it, and WellFormed(img):
   header fields, offsets and counts mutually consistent; chromosome tree and every R-tree
   structurally valid with spans containing everything beneath them; every block a valid zlib
   stream no larger than the advertised buffer holding at most the advertised number of items from
   one chromosome.  Records(img), the summary and the zoom records are judged against the input with
   the predicates of C01/C02/C06/C07/C08. *)
EXTENDS RTreeImage

MagicOf(kind) == IF kind = "bw" THEN "888FFC26" ELSE "8789F2EB"

HeaderOK9(img, kind) ==
  /\ img.magic = MagicOf(kind) /\ img.trailer = MagicOf(kind)
  /\ img.version \in 1..4
  /\ img.zoomLevels = Len(img.zoomDir)
  /\ 64 + 24 * img.zoomLevels <= img.fullDataOffset
  /\ img.fullDataOffset + 8 <= img.fullIndexOffset
  /\ img.fullIndexOffset + 48 <= img.fileLen
  /\ img.chromTreeOffset >= 64 + 24 * img.zoomLevels /\ img.chromTreeOffset + 32 <= img.fileLen
  /\ (img.totalSummaryOffset = 0 \/ (img.totalSummaryOffset >= 64 + 24 * img.zoomLevels /\ img.totalSummaryOffset + 40 <= img.fileLen))
  /\ (kind = "bb" => img.autoSqlOffset >= 64 + 24 * img.zoomLevels /\ img.autoSqlOffset < img.fileLen)
  /\ \A i \in 1..Len(img.zoomDir) : /\ img.zoomDir[i][2] <= img.zoomDir[i][3] /\ img.zoomDir[i][3] + 48 <= img.fileLen
                                    /\ img.zoomDir[i][2] >= img.fullIndexOffset
  /\ \A i \in 2..Len(img.zoomDir) : img.zoomDir[i-1][1] < img.zoomDir[i][1]          \* reductions strictly increasing
  \* fields bigtools' own reader never looks at, but the UCSC library and pyBigWig do ("extra" may be absent in older recorded images)
  /\ ("extensionOffset" \in DOMAIN img =>
        /\ (img.extensionOffset = 0 \/ (img.extensionOffset >= 64 + 24 * img.zoomLevels /\ img.extensionOffset + 64 <= img.fileLen))
        /\ \A i \in 1..Len(img.zoomDirReserved) : img.zoomDirReserved[i] = 0
        /\ (kind = "bw" => img.fieldCount = 0 /\ img.definedFieldCount = 0 /\ img.autoSqlOffset = 0)
        /\ (kind = "bb" => img.fieldCount >= 3 /\ img.definedFieldCount <= img.fieldCount)
        \* the separately addressed regions do not overlap each other or the data: autoSql text (NUL-terminated), total summary (40 bytes),
        \* chromosome tree (at least header + one node header), data count + data blocks
        /\ LET dataEnd == IF Len(img.blocks) = 0 THEN img.fullDataOffset + 8 ELSE img.blocks[Len(img.blocks)].off + img.blocks[Len(img.blocks)].size
               Disjoint(a, an, b, bn) == a + an <= b \/ b + bn <= a
               asq == img.autoSqlLen + 1 IN
           /\ Disjoint(img.chromTreeOffset, 36, img.fullDataOffset, dataEnd - img.fullDataOffset)
           /\ (img.totalSummaryOffset # 0 => /\ Disjoint(img.totalSummaryOffset, 40, img.chromTreeOffset, 36)
                                              /\ Disjoint(img.totalSummaryOffset, 40, img.fullDataOffset, dataEnd - img.fullDataOffset))
           /\ (img.autoSqlOffset # 0 => /\ Disjoint(img.autoSqlOffset, asq, img.chromTreeOffset, 36)
                                         /\ Disjoint(img.autoSqlOffset, asq, img.fullDataOffset, dataEnd - img.fullDataOffset)
                                         /\ (img.totalSummaryOffset # 0 => Disjoint(img.autoSqlOffset, asq, img.totalSummaryOffset, 40))))

ChromTreeOK9(ct, usedChroms, sizes, sortedInput) ==      \* ct.chroms: <<nameIdx, id, size, keyLen>>
  /\ ct.magic = "78CA8C91" /\ ct.valSize = 8 /\ ct.blockSize >= 1
  /\ ct.itemCount = Len(ct.chroms)
  /\ ("maxNodeItems" \in DOMAIN ct => ct.maxNodeItems <= ct.blockSize)        \* no node holds more items than the header's block size
  /\ \A i \in 1..Len(ct.chroms) : ct.chroms[i][4] <= ct.keySize /\ ct.chroms[i][1] > 0
  /\ \A i, j \in 1..Len(ct.chroms) : i # j => ct.chroms[i][2] # ct.chroms[j][2] /\ ct.chroms[i][1] # ct.chroms[j][1]
  /\ {c[1] : c \in Range(ct.chroms)} = Range(usedChroms)
  /\ \A c \in Range(ct.chroms) : c[3] = sizes[c[1]]
  \* keys in ascending order when the input promised sorted chromosomes (names sort like their index)
  /\ (sortedInput => \A i \in 2..Len(ct.chroms) : ct.chroms[i-1][1] < ct.chroms[i][1])

\* blocks: <<off, size, zlibOk, rawLen, chrom, hs, he, items>> as a record
BlocksOK9(img, kind, blocks, tree, firstOff, perSlot) ==
  /\ \A i \in 1..Len(blocks) :
       LET b == blocks[i] IN
       /\ b.zlibOk = 1 /\ b.nitems >= 1
       /\ (img.uncompressBufSize > 0 => b.rawLen <= img.uncompressBufSize)
       /\ b.nitems <= perSlot
       \* the leaf item of the index describes exactly this block: extent and span = hull of its items.
       \* A data block holds one chromosome; a ZOOM block may be packed across chromosome boundaries (kent's
       \* writers do that; bigtools' own writer does not): its span then runs from its first to its last record.
       /\ tree.leafext[i] = <<b.off, b.size>>
       /\ IF b.onechrom = 1
          THEN /\ tree.leaves[i][1] = b.chrom /\ tree.leaves[i][3] = b.chrom
               /\ tree.leaves[i][2] = b.minstart /\ tree.leaves[i][4] = b.maxend
          ELSE /\ kind = "zoom"
               /\ tree.leaves[i][1] = b.chrom /\ tree.leaves[i][2] = b.firststart
               /\ tree.leaves[i][3] = b.lastchrom /\ tree.leaves[i][4] = b.lastend
  /\ Len(tree.leaves) = Len(blocks)
  \* data blocks are contiguous from the given offset, in index order
  /\ (Len(blocks) > 0 => blocks[1].off = firstOff)
  /\ \A i \in 2..Len(blocks) : blocks[i].off = blocks[i-1].off + blocks[i-1].size

TreeOK9(t, endOff, blocks) ==
  /\ t.error = 0 /\ t.magic = "2468ACE0"
  \* "end of the indexed data": where the index starts, or where the last block ends
  /\ (t.endFileOffset = endOff \/ (Len(blocks) > 0 /\ t.endFileOffset = blocks[Len(blocks)].off + blocks[Len(blocks)].size))
  /\ (Len(t.leaves) > 0 =>
        IF \A i \in 1..Len(t.leaves) : t.leaves[i][1] = t.leaves[i][3]
        THEN LET secs == Map(LAMBDA lf : <<lf[1], lf[2], lf[4]>>, t.leaves) IN TreeVerdict(t, secs) = "ok"
        \* an index over blocks that span chromosomes (zoom data of other writers): pointers, containment, item count
        ELSE LET im == ImgOf(t) IN PtrsOK(im) /\ ContainOK(im) /\ t.itemCount = Len(t.leaves) /\ t.blockSize >= 2)

WellFormed(img, kind, usedChroms, sizes, sortedInput) ==
  /\ img.error = 0
  /\ HeaderOK9(img, kind)
  /\ ChromTreeOK9(img.ctree, usedChroms, sizes, sortedInput)
  /\ TreeOK9(img.index, img.fullIndexOffset, img.blocks)
  /\ BlocksOK9(img, kind, img.blocks, img.index, img.fullDataOffset + 8, img.index.itemsPerSlot)
  /\ (kind = "bw" => img.dataCount = Len(img.blocks))
  /\ (kind = "bb" => img.dataCount = SeqSum(Map(LAMBDA b : b.nitems, img.blocks)))      \* bigBed: the number of entries (bigBedItemCount reads it)
  /\ (kind = "bw" => \A i \in 1..Len(img.blocks) : img.blocks[i].hs = img.blocks[i].minstart /\ img.blocks[i].he = img.blocks[i].maxend)
  /\ \A k \in 1..Len(img.zooms) :
       LET z == img.zooms[k] IN
       /\ z.reduction = img.zoomDir[k][1]
       /\ TreeOK9(z.index, img.zoomDir[k][3], z.blocks)
       /\ BlocksOK9(img, "zoom", z.blocks, z.index, img.zoomDir[k][2], z.index.itemsPerSlot)

WhyNot(img, kind, usedChroms, sizes, sortedInput) ==
  IF img.error # 0 THEN "undecodable"
  ELSE IF ~HeaderOK9(img, kind) THEN "header"
  ELSE IF ~ChromTreeOK9(img.ctree, usedChroms, sizes, sortedInput) THEN "chromtree"
  ELSE IF ~TreeOK9(img.index, img.fullIndexOffset, img.blocks) THEN "index"
  ELSE IF ~BlocksOK9(img, kind, img.blocks, img.index, img.fullDataOffset + 8, img.index.itemsPerSlot) THEN "blocks"
  ELSE IF ~WellFormed(img, kind, usedChroms, sizes, sortedInput) THEN "zoom-or-count"
  ELSE "ok"
=============================================================================
