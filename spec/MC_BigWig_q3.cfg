CONSTANTS
  AnyOrder = TRUE
  MinItems = 0
  NC = 3
  L = 2
  MaxItems = 3
  MaxPerChrom = 1
  Vals = {1, 3}
  IPS = {1}
  ZoomLists = "c"
INIT Init
NEXT Next
INVARIANTS MechRoundTrip MechZoom Emit
CHECK_DEADLOCK FALSE
