CONSTANTS
  Handles = {1, 2}
  Iters = {1, 2}
  Writers = {1}
  Paths = {1, 2, 3, 4, 5}
SPECIFICATION TSpec
INVARIANT ReaderCoherent
POSTCONDITION Post
CHECK_DEADLOCK FALSE
