CONSTANTS
  LenC = 10
INIT Init
NEXT Next
INVARIANT Emit
CHECK_DEADLOCK FALSE
