------------------------------- MODULE Slicing -------------------------------
(* C18: slicing a text input for parallel work.
   A file is a sequence of lines <<chrom, byteLength>> (the last line may lack its newline: its
   length then simply does not include one).  Three mechanisms and their abstract properties:
     * Index    : the bisection indexer (bed/indexer.rs, do_index) -> IndexExact
     * View     : FileView as a clamping cursor over [a, min(b, len)) -> ViewRun is the reference
     * Chunks   : split_file_into_chunks_by_size -> ChunksOK *)
EXTENDS BBICommon

Len1(lines, i) == lines[i][2]
RECURSIVE OffR(_, _)
OffR(lines, i) == IF i <= 1 THEN 0 ELSE OffR(lines, i - 1) + lines[i - 1][2]
Off(lines, i) == OffR(lines, i)                       \* byte offset of line i (1-based)
Size(lines) == Off(lines, Len(lines) + 1)
\* index of the first line starting at or after byte p (0 = none: end of file)
LineAt(lines, p) == IF \E i \in 1..Len(lines) : Off(lines, i) >= p
                    THEN CHOOSE i \in 1..Len(lines) : Off(lines, i) >= p /\ \A j \in 1..(i - 1) : Off(lines, j) < p
                    ELSE 0
IsLineStart(lines, p) == p = Size(lines) \/ \E i \in 1..Len(lines) : Off(lines, i) = p

(* ------------------------------- Index ---------------------------------- *)
\* abstract: the first line of every run of equal chromosome names
RunStarts(lines) == SelectSeq([i \in 1..Len(lines) |-> <<Off(lines, i), lines[i][1], i>>],
                              LAMBDA x : x[3] = 1 \/ lines[x[3] - 1][1] # x[2])
Grouped(lines) == \A i, j \in 1..Len(RunStarts(lines)) : i # j => RunStarts(lines)[i][2] # RunStarts(lines)[j][2]
IndexExact(lines, res) ==     \* res = [some |-> 0/1, idx |-> <<<<offset, chrom>>, ...>>]
  Grouped(lines) => res.some = 1 /\ res.idx = Map(LAMBDA x : <<x[1], x[2]>>, RunStarts(lines))

\* mechanism: byte-range bisection.  a = a known line start of chromosome X; h = an exclusive byte
\* bound such that the first line starting at or after h has chromosome Y # X (Y = 0: end of file).
\* Returns the entries recorded strictly between a and h, in file order.
RECURSIVE Bisect(_, _, _, _, _, _)
Bisect(lines, a, X, h, Y, fuel) ==
  IF fuel = 0 THEN << <<-1, -1>> >>
  ELSE LET i1 == LineAt(lines, a + 1) IN
       IF i1 = 0 \/ Off(lines, i1) >= h THEN <<>>
       ELSE LET mid == Max2((a + h) \div 2, a + 1)
                i == LineAt(lines, mid) IN
            IF i = 0 \/ Off(lines, i) >= h THEN Bisect(lines, a, X, mid, Y, fuel - 1)
            ELSE LET t == Off(lines, i)
                     Z == lines[i][1]
                     left == IF Z # X THEN Bisect(lines, a, X, t, Z, fuel - 1) ELSE <<>>
                     right == IF Z # Y THEN Bisect(lines, t, Z, h, Y, fuel - 1) ELSE <<>>
                 IN left \o << <<t, Z>> >> \o right
RECURSIVE DedupNames(_)
DedupNames(s) == IF Len(s) <= 1 THEN s
                 ELSE IF s[1][2] = s[2][2] THEN DedupNames(<<s[1]>> \o SubSeq(s, 3, Len(s)))
                 ELSE <<s[1]>> \o DedupNames(Tail(s))
IndexMech(lines) ==
  LET all == << <<0, lines[1][1]>> >> \o Bisect(lines, 0, lines[1][1], Size(lines), 0, 100)
      d == DedupNames(all) IN
  IF \E i, j \in 1..Len(d) : i # j /\ d[i][2] = d[j][2] THEN [some |-> 0, idx |-> <<>>]
  ELSE [some |-> 1, idx |-> d]

(* ------------------------------- View ----------------------------------- *)
\* a view on [a, b) of a file of length n whose byte at position p is the token p; ops:
\* <<"read", k>>, <<"start", k>>, <<"cur", k>>, <<"end", k>>   (k may be negative for cur / end)
Clamp(x, lo, hi) == Max2(lo, Min2(x, hi))
ViewStep(st, op) ==     \* st = [a, e, cur]; returns [st, ret, bytes]
  CASE op[1] = "read"  -> LET m == Min2(op[2], st.e - st.cur) IN
                          [st |-> [st EXCEPT !.cur = st.cur + m], ret |-> m, bytes |-> [i \in 1..m |-> st.cur + i - 1]]
    [] op[1] = "start" -> LET p == Min2(st.e, st.a + op[2]) IN [st |-> [st EXCEPT !.cur = p], ret |-> p - st.a, bytes |-> <<>>]
    [] op[1] = "cur"   -> LET p == Clamp(st.cur + op[2], st.a, st.e) IN [st |-> [st EXCEPT !.cur = p], ret |-> p - st.a, bytes |-> <<>>]
    [] op[1] = "end"   -> LET p == Clamp(st.e + Min2(op[2], 0), st.a, st.e) IN [st |-> [st EXCEPT !.cur = p], ret |-> p - st.a, bytes |-> <<>>]
RECURSIVE ViewRunR(_, _, _)
ViewRunR(st, ops, acc) == IF ops = <<>> THEN acc
                          ELSE LET r == ViewStep(st, Head(ops)) IN ViewRunR(r.st, Tail(ops), Append(acc, <<r.ret, r.bytes>>))
ViewRun(n, a, b, ops) == ViewRunR([a |-> a, e |-> Min2(b, n), cur |-> a], ops, <<>>)

(* ------------------------------ Chunks ---------------------------------- *)
ChunksOK(lines, chunks) ==       \* chunks = sequence of <<start, end>>
  /\ Len(chunks) >= 1 /\ chunks[1][1] = 0 /\ chunks[Len(chunks)][2] = Size(lines)
  /\ \A i \in 1..Len(chunks) : chunks[i][1] <= chunks[i][2] /\ IsLineStart(lines, chunks[i][1])
  /\ \A i \in 2..Len(chunks) : chunks[i][1] = chunks[i-1][2]
\* mechanism: split_file_into_chunks_by_size
EndOfLineAt(lines, p) ==      \* where read_line started at byte p stops
  IF p >= Size(lines) THEN Max2(p, Size(lines))
  ELSE LET i == CHOOSE i \in 1..Len(lines) : Off(lines, i) <= p /\ p < Off(lines, i + 1) IN Off(lines, i + 1)
RECURSIVE ChunkLoop(_, _, _, _, _, _)
ChunkLoop(lines, csize, start, end, acc, fuel) ==
  IF fuel = 0 THEN acc
  ELSE LET le == EndOfLineAt(lines, end)
           acc2 == Append(acc, <<start, le>>)
           nend == Min2(Max2(le, start + csize + csize), Size(lines)) IN
       IF le >= Size(lines) THEN acc2 ELSE ChunkLoop(lines, csize, le, nend, acc2, fuel - 1)
ChunksMech(lines, n) == ChunkLoop(lines, Size(lines) \div n, 0, Size(lines) \div n, <<>>, 200)
=============================================================================
