CONSTANTS
  K = 8
  W = 6
  Fail = {7}
SPECIFICATION Spec
INVARIANTS TypeOK Ordered ExactlyOnce WaitSafe Outcome NoSkippedFailure
PROPERTY Finishes
CHECK_DEADLOCK FALSE
