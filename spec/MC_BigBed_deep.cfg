CONSTANTS
  AnyOrder = FALSE
  MinItems = 5
  NC = 2
  L = 8
  MaxItems = 8
  MaxPerChrom = 7
  IPS = {1}
  ZoomLists = "c"
  EndSlack = 1
INIT Init
NEXT Next
INVARIANTS MechSummaryOK MechZoomOK Emit
CHECK_DEADLOCK FALSE
