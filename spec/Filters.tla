-------------------------------- MODULE Filters --------------------------------
(* Extra (beyond the listed properties): the BED-driven filters of the command line.
     bigwigtobedgraph --overlap-bed R   for every region of R in order: the stored values overlapping it, clipped
     bigbedtobed      --overlap-bed R   for every region in order: the overlapping entries, clipped, extra columns kept
     bigtools intersect -a R -b X.bb    for every region in order: the overlapping entries, unclipped, under the region's chromosome name
     bigtools chromintersect -a R -b X  the lines of R whose chromosome is in X, unchanged and in order
   The per-region answer is the range-query predicate of C03 / C04; the output is the concatenation over the
   regions: Split searches for a cut of the output lines into one (possibly empty) piece per region. *)
EXTENDS BigWigSpec
B == INSTANCE BigBedSpec
TriplesW(items, c) == Map(LAMBDA it : <<it[2], it[3], it[4]>>, ItemsOf(items, c))

\* bigBed: the entries answering the query (Required <= ids <= Allowed, in stored order); clip = TRUE for --overlap-bed
EntryOf(st, id) == st[CHOOSE i \in 1..Len(st) : st[i][3] = id]
PieceB(items, r, piece, clip) ==
  LET st == B!Stored(items, r[1])
      ids == Map(LAMBDA x : x[4], piece) IN
  /\ \A i \in 1..Len(piece) : piece[i][1] = r[1] /\ \E j \in 1..Len(st) : st[j][3] = piece[i][4]
  /\ IsSubseq(Map(LAMBDA x : x[3], B!Required(st, r[2], r[3])), ids)
  /\ IsSubseq(ids, Map(LAMBDA x : x[3], B!Allowed(st, r[2], r[3])))
  /\ \A i \in 1..Len(piece) :
       LET e == EntryOf(st, piece[i][4]) IN
       IF clip THEN piece[i][2] = Max2(e[1], r[2]) /\ piece[i][3] = Min2(e[2], r[3])
       ELSE piece[i][2] = e[1] /\ piece[i][3] = e[2]
PieceW(items, r, piece) ==
  /\ \A i \in 1..Len(piece) : piece[i][1] = r[1]
  /\ IntervalOK(TriplesW(items, r[1]), r[2], r[3], Map(LAMBDA x : <<x[2], x[3], x[4]>>, piece))
PieceOK(mode, items, r, piece) == CASE mode = "w" -> PieceW(items, r, piece)
                                    [] mode = "bclip" -> PieceB(items, r, piece, TRUE)
                                    [] mode = "b" -> PieceB(items, r, piece, FALSE)

\* out: sequence of <<chrom, start, end, x>>; regions: sequence of <<chrom, start, end>>
RECURSIVE Split(_, _, _, _)
Split(mode, items, regions, out) ==
  IF regions = <<>> THEN out = <<>>
  ELSE \E n \in 0..Len(out) : /\ PieceOK(mode, items, Head(regions), SubSeq(out, 1, n))
                              /\ Split(mode, items, Tail(regions), SubSeq(out, n + 1, Len(out)))
OverlapBedW(items, regions, out) == Split("w", items, regions, out)
OverlapBedB(items, regions, out) == Split("bclip", items, regions, out)
IntersectB(items, regions, out) == Split("b", items, regions, out)

\* chromintersect: out = indices of the region lines kept
ChromIntersect(chroms, regions, out) == out = SelectSeq([i \in 1..Len(regions) |-> i], LAMBDA i : regions[i][1] \in chroms)
=============================================================================
