CONSTANTS
  AnyOrder = FALSE
  MinItems = 0
  NC = 3
  L = 4
  MaxItems = 3
  MaxPerChrom = 2
  IPS = {1, 2}
  ZoomLists = "b"
  EndSlack = 1
INIT Init
NEXT Next
INVARIANTS MechSummaryOK MechZoomOK Emit
CHECK_DEADLOCK FALSE
