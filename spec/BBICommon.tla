----------------------------- MODULE BBICommon -----------------------------
(* Shared vocabulary of the bigWig / bigBed specifications.
   An item is a tuple <<chrom, start, end, x>> (x = value token for bigWig, entry id for bigBed);
   a zoom record is <<chrom, start, end, bases, min, max, sum, sumsq>>.  Tuples, not records,
   because that is what JSON arrays deserialise to. *)
EXTENDS Integers, Sequences, FiniteSets, TLC

Max2(a, b) == IF a >= b THEN a ELSE b
Min2(a, b) == IF a <= b THEN a ELSE b

RECURSIVE SeqSum(_)
SeqSum(s) == IF s = <<>> THEN 0 ELSE Head(s) + SeqSum(Tail(s))
RECURSIVE SetSum(_)
SetSum(S) == IF S = {} THEN 0 ELSE LET x == CHOOSE y \in S : TRUE IN x[2] + SetSum(S \ {x})   \* S = set of <<key, n>>
SetMax(S) == CHOOSE x \in S : \A y \in S : y <= x
SetMin(S) == CHOOSE x \in S : \A y \in S : x <= y
Map(F(_), s) == [i \in 1..Len(s) |-> F(s[i])]
Range(s) == {s[i] : i \in 1..Len(s)}
Last(s) == s[Len(s)]

\* order-preserving subsequence test (greedy matching)
RECURSIVE IsSubseq(_, _)
IsSubseq(a, b) == IF a = <<>> THEN TRUE
                  ELSE IF b = <<>> THEN FALSE
                  ELSE IF Head(a) = Head(b) THEN IsSubseq(Tail(a), Tail(b))
                  ELSE IsSubseq(a, Tail(b))

Chrom(it) == it[1]
Start(it) == it[2]
End(it) == it[3]
Val(it) == it[4]

\* chromosomes in first-appearance order
RECURSIVE ChromsOfAcc(_, _)
ChromsOfAcc(items, acc) ==
  IF items = <<>> THEN acc
  ELSE ChromsOfAcc(Tail(items), IF \E i \in 1..Len(acc) : acc[i] = Chrom(Head(items)) THEN acc ELSE Append(acc, Chrom(Head(items))))
ChromsOf(items) == ChromsOfAcc(items, <<>>)
ItemsOf(items, c) == SelectSeq(items, LAMBDA it : Chrom(it) = c)

(* ---- per-base view of bigWig values of ONE chromosome (sorted, non-overlapping) ---- *)
CovW(items, b) == \E i \in 1..Len(items) : Start(items[i]) <= b /\ b < End(items[i])
ValAtW(items, b) == Val(items[CHOOSE i \in 1..Len(items) : Start(items[i]) <= b /\ b < End(items[i])])

(* ---- per-base coverage depth of bigBed entries of ONE chromosome ---- *)
Depth(items, b) == Cardinality({i \in 1..Len(items) : Start(items[i]) <= b /\ b < End(items[i])})

\* statistics of a function f over a finite non-empty set S of bases
Stats(S, f(_)) == [bases |-> Cardinality(S),
                   sum   |-> SetSum({<<b, f(b)>> : b \in S}),
                   sumsq |-> SetSum({<<b, f(b) * f(b)>> : b \in S}),
                   min   |-> SetMin({f(b) : b \in S}),
                   max   |-> SetMax({f(b) : b \in S})]

\* span of positions that matter for a chromosome: everything below MaxEnd
MaxEnd(items) == IF items = <<>> THEN 0 ELSE SetMax({End(items[i]) : i \in 1..Len(items)})

(***************************************************************************)
(* Zoom levels (C07 / C08).  cov(b) and f(b) describe the data of one      *)
(* chromosome c; recs are the records the file holds for c at resolution r.*)
(***************************************************************************)
ZoomFaithful(c, hi, r, recs, cov(_), f(_)) ==
  /\ \A i \in 1..Len(recs) : /\ recs[i][1] = c
                             /\ recs[i][2] <= recs[i][3]
                             /\ recs[i][3] - recs[i][2] <= r
  /\ \A i \in 2..Len(recs) : recs[i-1][3] <= recs[i][2]
  /\ \A b \in 0..(hi - 1) : cov(b) => \E i \in 1..Len(recs) : recs[i][2] <= b /\ b < recs[i][3]
  /\ \A i \in 1..Len(recs) :
       LET S == {b \in recs[i][2]..(recs[i][3] - 1) : cov(b)} IN
       /\ recs[i][4] = Cardinality(S)
       /\ S # {} => LET st == Stats(S, f) IN
                    /\ recs[i][5] = st.min /\ recs[i][6] = st.max
                    /\ recs[i][7] = st.sum /\ recs[i][8] = st.sumsq

\* the same with one value token standing for +infinity: a record whose span holds an infinite base reports infinite sums
\* (not representable here: only its extent and covered-base count are judged); every other record must be exact - in
\* particular no NaN may leak into a record of finite data
ZoomFaithfulX(c, hi, r, recs, cov(_), f(_), special(_)) ==
  /\ \A i \in 1..Len(recs) : /\ recs[i][1] = c
                             /\ recs[i][2] <= recs[i][3]
                             /\ recs[i][3] - recs[i][2] <= r
  /\ \A i \in 2..Len(recs) : recs[i-1][3] <= recs[i][2]
  /\ \A b \in 0..(hi - 1) : cov(b) => \E i \in 1..Len(recs) : recs[i][2] <= b /\ b < recs[i][3]
  /\ \A i \in 1..Len(recs) :
       LET S == {b \in recs[i][2]..(recs[i][3] - 1) : cov(b)} IN
       /\ recs[i][4] = Cardinality(S)
       /\ (S # {} /\ ~(\E b \in S : special(b))) =>
               LET st == Stats(S, f) IN
               /\ recs[i][5] = st.min /\ recs[i][6] = st.max
               /\ recs[i][7] = st.sum /\ recs[i][8] = st.sumsq

\* a zoom range query [s,e) must return every record intersecting it, in order, and nothing
\* lying wholly outside [s,e] (touching records may be included)
ZoomQueryOK(recs2, s, e, res) ==   \* recs2, res: sequences of <<start, end>>
  /\ IsSubseq(SelectSeq(recs2, LAMBDA x : x[1] < e /\ x[2] > s), res)
  /\ IsSubseq(res, SelectSeq(recs2, LAMBDA x : x[2] >= s /\ x[1] <= e))

\* the records of one chromosome are contiguous (chromosomes follow each other in id = first-appearance order)
GroupedByChrom(recs) == \A i, j \in 1..Len(recs) : (i < j /\ recs[i][1] = recs[j][1]) => \A k \in i..j : recs[k][1] = recs[i][1]
LevelsIncreasing(levels) == \A i \in 2..Len(levels) : levels[i-1] < levels[i]

(***************************************************************************)
(* Mechanism: the tiling loop of process_val_zoom (both writers), as a     *)
(* function of the flushed segments <<start, end, value>> of a chromosome. *)
(* live = <<on, start, end, bases, min, max, sum, sumsq>>                  *)
(***************************************************************************)
NoLive == <<FALSE, 0, 0, 0, 0, 0, 0, 0>>
RECURSIVE TileSeg(_, _, _, _, _, _, _)
TileSeg(c, r, live, recs, addStart, seg, segStart) ==
  IF addStart >= seg[2] THEN <<live, recs>>
  ELSE LET v == seg[3]
           l2 == IF live[1] THEN live ELSE <<TRUE, addStart, addStart, 0, v, v, 0, 0>>
           nextEnd == l2[2] + r
           addEnd == Min2(nextEnd, seg[2])
           l3 == IF addEnd > addStart
                   THEN <<TRUE, l2[2], addEnd, l2[4] + (addEnd - addStart), Min2(l2[5], v), Max2(l2[6], v),
                          l2[7] + (addEnd - addStart) * v, l2[8] + (addEnd - addStart) * v * v>>
                   ELSE l2
           closed == addEnd = nextEnd
           rec == <<c, l3[2], l3[3], l3[4], l3[5], l3[6], l3[7], l3[8]>>
           nxt == Max2(addEnd, segStart)
       IN TileSeg(c, r, IF closed THEN NoLive ELSE l3, IF closed THEN Append(recs, rec) ELSE recs, nxt, seg, segStart)
RECURSIVE TileAll(_, _, _, _, _)
TileAll(c, r, live, recs, segs) ==
  IF segs = <<>> THEN (IF live[1] THEN Append(recs, <<c, live[2], live[3], live[4], live[5], live[6], live[7], live[8]>>) ELSE recs)
  ELSE LET t == TileSeg(c, r, live, recs, Head(segs)[1], Head(segs), Head(segs)[1])
       IN TileAll(c, r, t[1], t[2], Tail(segs))
\* zoom records of one chromosome from its segments (bigWig: the values; bigBed: depth segments)
ZoomRecsOf(c, r, segs) == TileAll(c, r, NoLive, <<>>, segs)
=============================================================================
