------------------------------ MODULE MC_MergeTool ------------------------------
(* Configurations of the bigwigmerge tool: input sets (values starting at base 0, chromosomes
   missing from some inputs, cancelling values, 980 inputs), clip / adjust / threshold, output naming. *)
EXTENDS Merge, Json
VARIABLES cfg, step
Fields == <<"ds", "clip", "adjust", "thr", "out", "threads", "style">>
Dom(f) == CASE f = "ds" -> {1, 2, 3, 4} [] f = "clip" -> {0, 2} [] f = "adjust" -> {0, 1, 3} [] f = "thr" -> {0, 1, 4, 50}
            [] f = "out" -> {"bw", "bigWig", "bedGraph", "type-bigwig", "type-BedGraph"} [] f = "threads" -> {1, 4}
            \* how the inputs are named: -b each, -l list file, the kent call `bigWigMerge in1 in2 .. out` with -clip= -adjust= -threshold=, kent -inList
            [] f = "style" -> {"native", "list", "ucsc", "ucsc-list", "mixed"}     \* mixed: some inputs with -b, the rest in two -l list files
\* inputs: per bigWig a list of <<chrom, s, e, v>>
Inputs(ds) == CASE ds = 1 -> << << <<1, 0, 3, 1>>, <<1, 5, 8, 2>>, <<2, 0, 2, 1>> >>, << <<1, 2, 6, 1>>, <<2, 1, 4, 3>> >> >>
                [] ds = 2 -> << << <<1, 0, 2, 2>>, <<1, 4, 6, 1>> >>, << <<1, 1, 3, 1>>, <<2, 3, 5, 2>> >>, << <<2, 0, 1, 1>>, <<2, 4, 7, 1>> >> >>
                [] ds = 3 -> << << <<1, 0, 1, 5>> >>, << <<1, 0, 4, 1>>, <<2, 2, 3, 1>> >> >>
                \* ds 4: MANY inputs (more than the tool keeps open at once: it then merges in chunks): the first input
                \* 976 times, the second 4 times; partial sums of the first chunk are negative where the total is positive
                [] ds = 4 -> << << <<1, 0, 4, -1>>, <<1, 6, 8, 1>> >>, << <<1, 2, 8, 300>>, <<2, 0, 2, 5>> >> >>
Mult(ds) == IF ds = 4 THEN <<976, 4>> ELSE [i \in 1..Len(Inputs(ds)) |-> 1]
Init == cfg = <<>> /\ step = 1
Next == step <= Len(Fields) /\ \E v \in Dom(Fields[step]) : cfg' = Append(cfg, v) /\ step' = step + 1
Done == step > Len(Fields)
Emit == Done => PrintT(<<"REPLAY", ToJson([ds |-> cfg[1], inputs |-> Inputs(cfg[1]), mult |-> Mult(cfg[1]), clip |-> cfg[2], adjust |-> cfg[3], thr |-> cfg[4], out |-> cfg[5], threads |-> cfg[6], style |-> cfg[7]])>>)
=============================================================================
