----------------------------- MODULE Trace_TFB -----------------------------
(* Trace validation (impl -> spec) of single-driver replays of the real TempFileBuffer.
   The trace is the concatenation of many recorded schedules; a "reset" event starts the next one.
   Every event is matched against the action of TempFileBuffer.tla with the same name, and the
   values the real code exposed after the step (is_real_file_ready, contents of the real
   destination, results of await_real_file / expect_closed_write / len) must equal the
   specification's state.  Acceptance: the whole trace is consumed (POSTCONDITION). *)
EXTENDS TempFileBuffer, Json, IOUtils, TLCExt
Tr == ndJsonDeserialize(IOEnv.TRACE)
VARIABLE l
tvars == <<vars, l>>

TInit == /\ l = 2 /\ Tr[1].ev = "reset"
         /\ InitWith([pp |-> Tr[1].pp, cp |-> Tr[1].cp])

E == Tr[l]
IsEv(name) == l <= Len(Tr) /\ E.ev = name /\ l' = l + 1

\* what the real code showed after the step must be the specification's next state
\* RELAX = "1": the intermediate contents of the destination are not compared (they are not part of the
\* property statement; a rejection that disappears under RELAX is model drift, not a violation)
Relaxed == "RELAX" \in DOMAIN IOEnv /\ IOEnv.RELAX = "1"
Shown ==
  /\ (E.ready # 2 => (E.ready = 1) = IsSome(closed'))
  /\ ((E.rk = 1 /\ ~Relaxed) => E.real = RealFile')

Res(tag) == /\ E.tag = tag /\ cres'.tag = tag /\ cres'.val = E.val

TReset == /\ IsEv("reset") /\ Done
          /\ bstate' = "NotStarted" /\ staged' = <<>> /\ pdest' = None /\ mailbox' = None /\ closed' = None
          /\ written' = <<>> /\ nextb' = 1 /\ ppc' = 1 /\ cpc' = 1 /\ cdest' = Some(Pre)
          /\ cres' = NoRes /\ waiting' = FALSE /\ cfg' = [pp |-> E.pp, cp |-> E.cp]
TWrite  == IsEv("w") /\ PWrite /\ PCur = E.n /\ E.tag = "none" /\ Shown
TFlush  == IsEv("f") /\ PFlush /\ E.tag = "none" /\ Shown
TDrop   == IsEv("drop") /\ PDrop /\ E.tag = "none" /\ Shown
TSwitch == IsEv("switch") /\ CSwitch /\ E.tag = "none" /\ cres'.tag # "panic" /\ Shown
TPark   == IsEv("park") /\ CPark /\ E.tag = "none" /\ Shown
TAwait  == IsEv("await") /\ CAwait /\ Res("file") /\ Shown
TEcw    == IsEv("ecw") /\ CEcw /\ Res("file") /\ Shown
TLen    == IsEv("len") /\ CLen /\ Res("len") /\ Shown

TNext == TReset \/ TWrite \/ TFlush \/ TDrop \/ TSwitch \/ TPark \/ TAwait \/ TEcw \/ TLen
TSpec == TInit /\ [][TNext]_tvars

\* C12 on the observed executions, evaluated in every state of the validated trace
Inv == Delivered /\ LenIsWritten /\ NoForbiddenPanic /\ RealIsOrderedImage

Accepted ==
  LET d == TLCGet("stats").diameter IN
  IF d = Len(Tr) THEN PrintT(<<"ACCEPTED", Len(Tr)>>)
  ELSE PrintT(<<"REJECTED", d + 1>>) /\ PrintT(<<"UNMATCHED", ToJson(Tr[d + 1])>>)
=============================================================================
