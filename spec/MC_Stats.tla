-------------------------------- MODULE MC_Stats --------------------------------
EXTENDS Stats, Json
VARIABLES cfg, step
Fields == <<"ds", "nreg", "name", "minmax", "threads", "rmode">>
Dom(f) == CASE f = "ds" -> {1, 2, 3, 4} [] f = "nreg" -> {1, 3, 40} [] f = "name" -> {"col4", "col5", "interval", "none", "default"}
            [] f = "minmax" -> {0, 1} [] f = "threads" -> {1, 2, 3, 8, 16} [] f = "rmode" -> {"mix", "win"}
Data(ds) == CASE ds = 1 -> << <<1, 2, 5, 3>>, <<1, 5, 6, 1>>, <<1, 9, 12, 2>>, <<2, 0, 4, 7>>, <<2, 6, 7, 1>> >>
              [] ds = 2 -> << <<1, 0, 1, 1>>, <<1, 3, 9, 4>>, <<2, 2, 3, 2>>, <<3, 1, 2, 5>>, <<3, 2, 14, 1>> >>
              \* ds 3: negative values (regions covering only negative values: the extrema must be negative too)
              [] ds = 3 -> << <<1, 2, 5, -3>>, <<1, 5, 6, -1>>, <<1, 9, 12, 2>>, <<2, 0, 4, -7>>, <<2, 6, 7, -1>> >>
              \* ds 4: the second chromosome comes first in the file (written with input sort type START): ids are given by first
              \* appearance, so the chromosome table is not in name order
              [] ds = 4 -> << <<2, 0, 4, 7>>, <<2, 6, 7, 1>>, <<1, 2, 5, 3>>, <<1, 5, 6, 1>>, <<1, 9, 12, 2>> >>
NChr(ds) == IF ds = 2 THEN 3 ELSE 2
\* region i of a list: chromosome, start, end chosen by a fixed arithmetic rule so that regions lie
\* inside, straddle, fall between and outside the data
RegionAt(ds, i) == LET c == 1 + (i % NChr(ds))
                       s == (i * 7) % 13
                       e == s + 1 + ((i * 5) % 6) IN <<c, s, e>>
\* "win": fixed-width windows tiling each chromosome from base 0 (the usual way such a tool is driven):
\* consecutive rows of equal width, some over data, some over gaps
WinAt(ds, i) == LET w == 2 + (ds % 2)
                    c == 1 + (((i - 1) \div 8) % NChr(ds))
                    s == ((i - 1) % 8) * w IN <<c, s, s + w>>
Regions(ds, n, m) == [i \in 1..n |-> IF m = "win" THEN WinAt(ds, i) ELSE RegionAt(ds, i)]
Init == cfg = <<>> /\ step = 1
Next == step <= Len(Fields) /\ \E v \in Dom(Fields[step]) : cfg' = Append(cfg, v) /\ step' = step + 1
Done == step > Len(Fields)
Emit == Done => PrintT(<<"REPLAY", ToJson([ds |-> cfg[1], items |-> Data(cfg[1]), regions |-> Regions(cfg[1], cfg[2], cfg[6]), name |-> cfg[3],
                                            minmax |-> cfg[4], threads |-> cfg[5]])>>)
=============================================================================
