------------------------------ MODULE Obs_Refusal ------------------------------
EXTENDS Refusal, Json, IOUtils
Obs == ndJsonDeserialize(IOEnv.OBS)
VARIABLE x
Init == x = 0
Next == UNCHANGED x
Sz(o) == [c \in 1..o.NC |-> o.L]
Verdict(o) ==
  IF o.obs.result \notin {"ok", "err"} THEN "did-not-return-normally"
  ELSE IF MustRefuse(o.kind, o.items, Sz(o), o.NC, o.sorted = 1) /\ o.obs.result # "err" THEN "accepted-unrepresentable-input"
  ELSE "ok"
Post == /\ \A i \in 1..Len(Obs) : LET v == Verdict(Obs[i]) IN (v = "ok" \/ PrintT(<<"BAD", i, v>>))
        /\ PrintT(<<"CHECKED", Len(Obs)>>)
=============================================================================
