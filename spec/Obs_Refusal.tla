------------------------------ MODULE Obs_Refusal ------------------------------
EXTENDS Refusal, Json, IOUtils
Obs == ndJsonDeserialize(IOEnv.OBS)
VARIABLE x
Init == x = 0
Next == UNCHANGED x
Sz(o) == [c \in 1..o.NC |-> o.L]
\* long run-structured streams through the real converters: the only possible defect is the chromosome order
\* (o.must, computed by MC_RefusalRuns!ChromOrderBadRuns); "silent" = exit status 0 without an output file
ChromOrderBadRuns(r) == \E i \in 1..(Len(r) - 1) : r[i][1] > r[i+1][1]
VerdictLong(o) ==
  IF o.obs.result \notin {"ok", "err", "silent"} THEN "did-not-return-normally"
  ELSE IF (ChromOrderBadRuns(o.runs) \/ o.bad # 0) /\ o.obs.result = "ok" THEN "accepted-unrepresentable-input"
  ELSE IF (ChromOrderBadRuns(o.runs) \/ o.bad # 0) /\ o.obs.result = "silent" THEN "refused-with-exit-status-0"
  ELSE "ok"
Verdict(o) ==
  IF "long" \in DOMAIN o THEN VerdictLong(o) ELSE
  IF o.obs.result \notin {"ok", "err"} THEN "did-not-return-normally"
  ELSE IF MustRefuse(o.kind, o.items, Sz(o), o.NC, o.sorted = 1) /\ o.obs.result # "err" THEN "accepted-unrepresentable-input"
  ELSE "ok"
Post == /\ \A i \in 1..Len(Obs) : LET v == Verdict(Obs[i]) IN (v = "ok" \/ PrintT(<<"BAD", i, v>>))
        /\ PrintT(<<"CHECKED", Len(Obs)>>)
=============================================================================
