-------------------------------- MODULE AutoSql --------------------------------
(* C19: the autoSql schema language at token level (bed/autosql.rs): the grammar the parser
   accepts, a generator of well-formed schemas, the schema bed_autosql generates for n extra
   columns, and the field-count rule of the bigBed header.
   Tokens are strings; "NAME", "STR", "NUM" stand for an identifier, a quoted comment and a number
   (rendered to text by the harness). *)
EXTENDS BBICommon

Kinds == {"table", "simple", "object"}
\* field forms: token sequences of one field (type [size] name [index] [auto] ; [comment])
FieldForms == <<
  <<"int", "NAME", ";", "STR">>,
  <<"uint", "NAME", ";">>,
  <<"char", "[", "NUM", "]", "NAME", ";", "STR">>,
  <<"int", "[", "NAME", "]", "NAME", ";", "STR">>,
  <<"enum", "(", "NAME", ",", "NAME", ")", "NAME", ";", "STR">>,
  <<"set", "(", "NAME", ")", "NAME", ";", "STR">>,
  <<"string", "NAME", "primary", ";", "STR">>,
  <<"lstring", "NAME", "index", "[", "NUM", "]", ";", "STR">>,
  <<"bigint", "NAME", "unique", ";", "STR">>,
  <<"uint", "NAME", "auto", ";", "STR">>,
  <<"simple", "NAME", "NAME", ";", "STR">>,
  <<"double", "NAME", "index", ";", "STR">>
>>
NForms == Len(FieldForms)
RECURSIVE FlatT(_)
FlatT(ss) == IF ss = <<>> THEN <<>> ELSE Head(ss) \o FlatT(Tail(ss))
\* a declaration: kind name [index] comment ( fields )
Decl(kind, idx, forms) == <<kind, "NAME">> \o idx \o <<"STR", "(">> \o FlatT(Map(LAMBDA f : FieldForms[f], forms)) \o <<")">>
IdxForms == {<<>>, <<"primary">>, <<"auto">>, <<"index", "[", "NUM", "]">>, <<"unique", "auto">>}
\* a schema = sequence of declarations, each given as <<kind, idx, forms>>
Tokens(schema) == FlatT(Map(LAMBDA d : Decl(d[1], d[2], d[3]), schema))
FieldCounts(schema) == Map(LAMBDA d : Len(d[3]), schema)
\* the bigBed header's field count: the number of fields of the LAST declaration of the schema
HeaderFieldCount(schema) == Len(schema[Len(schema)][3])

\* properties of the parser's answer [result, counts]
Total(ans) == ans.result \in {"accept", "reject"}                       \* it returned: no hang, no panic, no runaway
ParsesValid(schema, ans) == ans.result = "accept" /\ ans.counts = FieldCounts(schema)
\* bed_autosql(n extra columns) declares exactly 3 + n fields and is accepted by the parser
BedSchemaOK(n, ans, storedFields, headerCount) ==
  /\ ans.result = "accept" /\ Len(ans.counts) = 1 /\ ans.counts[1] = 3 + n
  /\ storedFields = 3 + n /\ headerCount = 3 + n
=============================================================================
