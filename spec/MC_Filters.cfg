CONSTANTS
  MaxPos = 12
  MaxRegions = 4
INIT Init
NEXT Next
INVARIANT Emit
CHECK_DEADLOCK FALSE
