--------------------------------- MODULE Cli ---------------------------------
(* C16: the command-line converters.  The configuration space (thread count, parallel mode, pass
   mode, buffering, compression, block size, zooms, flag style, invocation style, restriction of
   the output), the path-selection table of the converters (mechanism), and the statement:
   converting there and back returns the original records; a restricted conversion returns the
   corresponding range-query answer (C03 / C04 predicates). *)
EXTENDS BigWigSpec
B == INSTANCE BigBedSpec

\* mechanism: which source / pass mode a configuration selects (bedgraphtobigwig / bedtobigbed)
SourceOf(cfg) == IF cfg.stdin = 1 THEN "stdin" ELSE IF cfg.threads > 1 /\ cfg.parallel = "yes" THEN "parallel" ELSE "serial"   \* "auto" needs >= 200 MB
PassesOf(cfg) == IF cfg.single = 1 \/ cfg.stdin = 1 THEN 1 ELSE 2
RuntimeOf(cfg) == IF cfg.threads = 1 THEN "current" ELSE "multi"
BackPathOf(cfg) == IF cfg.bthreads = 1 \/ cfg.restrict # "none" THEN "single" ELSE "multi"
PathClass(cfg) == <<SourceOf(cfg), PassesOf(cfg), RuntimeOf(cfg), BackPathOf(cfg)>>

\* UCSC spellings and their native equivalents (compat_args): both must behave identically
Compat == [unc |-> <<"-unc", "--uncompressed">>, blockSize |-> <<"-blockSize=", "--block-size=">>,
           chrom |-> <<"-chrom=", "--chrom=">>, start |-> <<"-start=", "--start=">>, end |-> <<"-end=", "--end=">>,
           zooms |-> <<"-zooms=", "--zooms=">>]

\* the round trip: records = sequence of <<chrom, start, end, x>> (x = value token / entry id)
RoundTripW(items, back) == back = items
RestrictedW(items, c, s, e, back) ==    \* back: <<start, end, v>> of chromosome c
  IntervalOK(Map(LAMBDA it : <<it[2], it[3], it[4]>>, ItemsOf(items, c)), s, e, back)
RestrictedChromW(items, c, back) == back = Map(LAMBDA it : <<it[2], it[3], it[4]>>, ItemsOf(items, c))
RoundTripB(items, back) == back = B!WithIds(items)
RestrictedB(items, c, s, e, back) == B!EntryQueryOK(B!Stored(items, c), s, e, back)
RestrictedChromB(items, c, back) == back = B!Stored(items, c)
=============================================================================
