------------------------------- MODULE MC_Filters -------------------------------
(* Region lists for the BED-driven filters: 1..4 regions drawn one after the other (random walks),
   on chromosomes 1..5 (5 is absent from both data files, 4 from the small one), any start, lengths 1..5. *)
EXTENDS Naturals, Sequences, TLC, Json
CONSTANTS MaxPos, MaxRegions
VARIABLES tool, ds, regions, done
\* ds 1: a small single-block file (3 chromosomes); ds 2: 4 chromosomes x 40 records in many blocks, positions scaled by 7
Init == tool \in {"overlap-bw", "overlap-bb", "intersect", "chromintersect"} /\ ds \in {1, 2} /\ regions = <<>> /\ done = FALSE
Add == /\ ~done /\ Len(regions) < MaxRegions
       /\ \E c \in 1..5, s \in 0..MaxPos, n \in 1..5 : regions' = Append(regions, IF ds = 1 THEN <<c, s, s + n>> ELSE <<c, 7 * s + n, 7 * (s + n)>>)
       /\ UNCHANGED <<tool, ds, done>>
Stop == ~done /\ Len(regions) >= 1 /\ done' = TRUE /\ UNCHANGED <<tool, ds, regions>>
Next == Add \/ Stop
Emit == done => PrintT(<<"REPLAY", ToJson([tool |-> tool, ds |-> ds, regions |-> regions])>>)
=============================================================================
