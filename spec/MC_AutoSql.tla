------------------------------- MODULE MC_AutoSql -------------------------------
(* Behaviours for C19: (valid) every single declaration with 1..2 fields over all field forms, kinds
   and index forms, and multi-declaration schemas with 2..5 declarations; (mut) every truncation and
   every single-token mutation of a set of valid schemas; (short) every token string of length <= K
   over the delimiter alphabet; (bed) n = 0..40 extra columns. *)
EXTENDS AutoSql, Json
CONSTANTS K, MutStride
VARIABLES b
Alphabet == {"table", "NAME", "STR", "(", ")", "[", "]", ",", ";", "int", "enum", "set", "index", "auto"}
Single == {<< <<k, ix, fs>> >> : k \in Kinds, ix \in IdxForms, fs \in UNION {[1..n -> 1..NForms] : n \in 1..2}}
Multi == {[i \in 1..n |-> <<IF i % 2 = 0 THEN "simple" ELSE "table", <<>>, [j \in 1..(1 + (i % 3)) |-> 1 + ((i * 5 + j) % NForms)]>>] : n \in 2..5}
Valid == Single \cup Multi
Base == {s \in Valid : (Len(s) > 1) \/ (s[1][1] = "table" /\ s[1][2] = <<>> /\ Len(s[1][3]) = 2 /\ s[1][3][1] % MutStride = 0)}
Truncs(t) == {SubSeq(t, 1, n) : n \in 0..(Len(t) - 1)}
Muts(t) == {[t EXCEPT ![i] = x] : i \in 1..Len(t), x \in {"(", ")", ";", "enum", "NAME", ","}} \cup {SubSeq(t, 1, i - 1) \o SubSeq(t, i + 1, Len(t)) : i \in 1..Len(t)}
Short == UNION {[1..n -> Alphabet] : n \in 0..K}
Init == \/ \E s \in Valid : b = [kind |-> "valid", tokens |-> Tokens(s), counts |-> FieldCounts(s), hfc |-> HeaderFieldCount(s), n |-> 0]
        \/ \E s \in Base : \E t \in Truncs(Tokens(s)) \cup Muts(Tokens(s)) : b = [kind |-> "mut", tokens |-> t, counts |-> <<>>, hfc |-> 0, n |-> 0]
        \/ \E t \in Short : b = [kind |-> "short", tokens |-> t, counts |-> <<>>, hfc |-> 0, n |-> 0]
        \/ \E n \in 0..40 : b = [kind |-> "bed", tokens |-> <<>>, counts |-> <<>>, hfc |-> 3 + n, n |-> n]
Next == UNCHANGED b
Emit == PrintT(<<"REPLAY", ToJson(b)>>)
=============================================================================
