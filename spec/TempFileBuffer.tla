--------------------------- MODULE TempFileBuffer ---------------------------
(***************************************************************************)
(* The staging buffer of bigtools (utils/file/tempfilebuffer.rs) at the    *)
(* granularity of its shared-memory accesses.                              *)
(*                                                                         *)
(*   producer half (TempFileBufferWriter):                                 *)
(*     PWrite  = update() [ONE atomic swap of the mailbox `real_file`;     *)
(*               NotStarted -> Real | Staged ; Staged -> Real + migration] *)
(*               followed by the private append                            *)
(*     PFlush  = flush() (no shared access)                                *)
(*     PDrop   = Drop: lock `closed`, publish the final state, notify      *)
(*   consumer half (TempFileBuffer):                                       *)
(*     CSwitch = switch(file): one atomic swap into the mailbox            *)
(*     CPark   = a blocking call (await_real_file / expect_closed_write /  *)
(*               len) started while `closed` is still None: it waits on    *)
(*               the condition variable                                    *)
(*     CAwait / CEcw / CLen = the call completes once `closed` is Some     *)
(*     is_real_file_ready is the observable IsSome(closed): it is logged   *)
(*     after every step of a replay instead of being a step of its own     *)
(*     (an unproductive poll is a stuttering step).                        *)
(*                                                                         *)
(* Bytes are distinct natural-number tokens so "each once, in order" is    *)
(* plain sequence equality.                                                *)
(***************************************************************************)
EXTENDS Naturals, Sequences, FiniteSets, TLC

CONSTANTS ProducerProgs,   \* set of sequences over {0,1,2,...} (write of that many bytes) and "f" encoded as 9
          ConsumerProgs    \* subset of {"switch_await","await_only_bad",...} see Prog

None == <<>>
Some(x) == <<x>>
IsSome(o) == Len(o) = 1
Get(o) == o[1]

Flush == 9                  \* producer op code for flush(); 0..8 = write of that many bytes
Pre == <<100, 101>>         \* bytes already in the real destination before it is handed over

VARIABLES bstate,   \* producer-private: "NotStarted" | "Staged" | "Real"
          staged,   \* producer-private: bytes staged in memory / in the temp file
          pdest,    \* producer-private: Option(contents of the real file it owns)
          mailbox,  \* shared AtomicCell<Option<R>> (`real_file`)
          closed,   \* shared Mutex<Option<BufferState>> (+ condvar): Option([st, staged, dest])
          written,  \* history: all bytes the producer has written, in order
          nextb,    \* next fresh byte token
          ppc,      \* producer programme counter (1..Len+2)
          cpc,      \* consumer programme counter
          cdest,    \* consumer-private: Option(real file) before switch / out file of ecw
          cres,     \* result of the consumer's last completed call [tag, val]
          waiting,  \* a blocking consumer call is parked on the condvar
          cfg       \* [pp, cp] : the two programmes (constant along a behaviour)

vars == <<bstate, staged, pdest, mailbox, closed, written, nextb, ppc, cpc, cdest, cres, waiting, cfg>>

NoRes == [tag |-> "none", val |-> <<>>]

Prog(p) == CASE p = "switch_await"       -> <<"switch", "await">>
             [] p = "ecw"                -> <<"ecw">>
             [] p = "len_ecw"            -> <<"len", "ecw">>
             [] p = "len_len_ecw"        -> <<"len", "len", "ecw">>
             \* illegal programmes, used only to show the panic arms are reachable when misused
             [] p = "await_noswitch"     -> <<"await">>
             [] p = "switch_ecw"         -> <<"switch", "ecw">>

InitWith(c) ==
  /\ bstate = "NotStarted" /\ staged = <<>> /\ pdest = None /\ mailbox = None /\ closed = None
  /\ written = <<>> /\ nextb = 1 /\ ppc = 1 /\ cpc = 1 /\ cdest = Some(Pre)
  /\ cres = NoRes /\ waiting = FALSE /\ cfg = c

Init == \E pp \in ProducerProgs, cp \in ConsumerProgs : InitWith([pp |-> pp, cp |-> cp])

Fresh(n) == [i \in 1..n |-> nextb + i - 1]

DropOp == 10                \* pseudo op: the producer half is dropped
EndOp == 11                 \* the producer is gone
PCur == IF ppc <= Len(cfg.pp) THEN cfg.pp[ppc] ELSE IF ppc = Len(cfg.pp) + 1 THEN DropOp ELSE EndOp
CCur == IF cpc <= Len(Prog(cfg.cp)) THEN Prog(cfg.cp)[cpc] ELSE "end"

(* update(): the one shared access of a write *)
PWrite ==
  /\ PCur \in 0..8
  /\ LET n == PCur  b == Fresh(n)  got == mailbox IN
     /\ mailbox' = None
     /\ IF bstate = "Real"
          THEN /\ pdest' = Some(Get(pdest) \o b)
               /\ UNCHANGED <<bstate, staged>>
               \* a file switched in AFTER the producer is Real is swallowed by swap(None): in the
               \* real code this cannot happen for legal programmes (switch is called once)
          ELSE IF IsSome(got)
            THEN /\ bstate' = "Real" /\ pdest' = Some(Get(got) \o staged \o b) /\ staged' = <<>>
            ELSE /\ bstate' = "Staged" /\ staged' = staged \o b /\ UNCHANGED pdest
     /\ written' = written \o b /\ nextb' = nextb + n
  /\ ppc' = ppc + 1
  /\ UNCHANGED <<closed, cpc, cdest, cres, waiting, cfg>>

PFlush ==
  /\ PCur = Flush /\ ppc' = ppc + 1
  /\ UNCHANGED <<bstate, staged, pdest, mailbox, closed, written, nextb, cpc, cdest, cres, waiting, cfg>>

PDrop ==
  /\ PCur = DropOp
  /\ closed' = Some([st |-> bstate, staged |-> staged, dest |-> pdest])
  /\ bstate' = "NotStarted" /\ staged' = <<>> /\ pdest' = None
  /\ waiting' = FALSE                       \* notify: the parked call may now proceed
  /\ ppc' = ppc + 1
  /\ UNCHANGED <<mailbox, written, nextb, cpc, cdest, cres, cfg>>

CSwitch ==
  /\ CCur = "switch" /\ IsSome(cdest)
  /\ IF IsSome(mailbox) THEN cres' = [tag |-> "panic", val |-> <<>>] /\ UNCHANGED <<mailbox, cdest>>
     ELSE mailbox' = cdest /\ cdest' = None /\ cres' = NoRes
  /\ cpc' = cpc + 1
  /\ UNCHANGED <<bstate, staged, pdest, closed, written, nextb, ppc, waiting, cfg>>

CPark ==
  /\ CCur \in {"await", "ecw", "len"} /\ ~IsSome(closed) /\ ~waiting
  /\ waiting' = TRUE
  /\ UNCHANGED <<bstate, staged, pdest, mailbox, closed, written, nextb, ppc, cpc, cdest, cres, cfg>>

CAwait ==
  /\ CCur = "await" /\ IsSome(closed) /\ ~waiting
  /\ LET got == mailbox  c == Get(closed) IN
     /\ mailbox' = None /\ closed' = Some([c EXCEPT !.dest = None])
     /\ cres' = IF IsSome(got)
                  THEN (IF c.st = "Real" THEN [tag |-> "panic", val |-> <<>>]
                        ELSE [tag |-> "file", val |-> Get(got) \o c.staged])
                  ELSE (IF c.st = "Real" THEN [tag |-> "file", val |-> Get(c.dest)]
                        ELSE [tag |-> "panic", val |-> <<>>])
  /\ cpc' = cpc + 1
  /\ UNCHANGED <<bstate, staged, pdest, written, nextb, ppc, cdest, waiting, cfg>>

CEcw ==
  /\ CCur = "ecw" /\ IsSome(closed) /\ ~waiting
  /\ LET c == Get(closed) IN
     /\ cres' = IF c.st = "Real" \/ IsSome(mailbox) THEN [tag |-> "panic", val |-> <<>>]
                ELSE [tag |-> "file", val |-> Get(cdest) \o c.staged]
  /\ mailbox' = None
  /\ cpc' = cpc + 1
  /\ UNCHANGED <<bstate, staged, pdest, closed, written, nextb, ppc, cdest, waiting, cfg>>

CLen ==
  /\ CCur = "len" /\ IsSome(closed) /\ ~waiting
  /\ LET c == Get(closed) IN
     cres' = IF c.st = "Real" THEN [tag |-> "panic", val |-> <<>>] ELSE [tag |-> "len", val |-> <<Len(c.staged)>>]
  /\ cpc' = cpc + 1
  /\ UNCHANGED <<bstate, staged, pdest, mailbox, closed, written, nextb, ppc, cdest, waiting, cfg>>

Next == PWrite \/ PFlush \/ PDrop \/ CSwitch \/ CPark \/ CAwait \/ CEcw \/ CLen

Fair == /\ WF_vars(PWrite) /\ WF_vars(PFlush) /\ WF_vars(PDrop) /\ WF_vars(CSwitch)
        /\ WF_vars(CAwait) /\ WF_vars(CEcw) /\ WF_vars(CLen)
Spec == Init /\ [][Next]_vars /\ Fair

Done == PCur = EndOp /\ CCur = "end"

(***************************************************************************)
(* The contents of the real destination, wherever the single handle to it  *)
(* currently is (consumer, mailbox, producer, published state, result).    *)
(***************************************************************************)
RealFile ==
  IF cres.tag = "file" THEN cres.val
  ELSE IF IsSome(mailbox) THEN Get(mailbox)
  ELSE IF IsSome(pdest) THEN Get(pdest)
  ELSE IF IsSome(closed) /\ IsSome(Get(closed).dest) THEN Get(Get(closed).dest)
  ELSE IF IsSome(cdest) THEN Get(cdest)
  ELSE <<>>

(***************************************************************************)
(* Properties (C12).  Legal programmes only.                               *)
(***************************************************************************)
Legal == cfg.cp \in {"switch_await", "ecw", "len_ecw", "len_len_ecw"}

\* the destination ends up holding exactly the bytes written, each once and in order
Delivered == (Legal /\ CCur = "end" /\ cres.tag = "file") => cres.val = Pre \o written
\* the reported staged length equals the number of bytes written
LenIsWritten == (Legal /\ cres.tag = "len") => (PCur = EndOp /\ cres.val = <<Len(written)>>)
\* the "unreachable" / "should have switched" arms are unreachable for legal programmes
NoForbiddenPanic == Legal => cres.tag # "panic"
\* at every moment the real file holds a prefix-consistent image: Pre, then written bytes in order
\* (possibly missing the staged tail) -- never reordered or duplicated bytes
IsPrefixOf(s, t) == Len(s) <= Len(t) /\ \A i \in 1..Len(s) : s[i] = t[i]
RealIsOrderedImage == Legal => IsPrefixOf(RealFile, Pre \o written)
\* no deadlock: whenever not done, some step is enabled
NoStuck == Done \/ ENABLED Next
\* waiting for completion returns once the producer is done
Terminates == <>Done
AwaitReturns == (PCur = EndOp) ~> (CCur = "end")
=============================================================================
