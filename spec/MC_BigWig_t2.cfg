CONSTANTS
  AnyOrder = FALSE
  MinItems = 0
  NC = 3
  L = 3
  MaxItems = 5
  MaxPerChrom = 2
  Vals = {1, 3}
  IPS = {1, 2}
  ZoomLists = "c"
INIT Init
NEXT Next
INVARIANTS MechRoundTrip MechZoom Emit
CHECK_DEADLOCK FALSE
