---------------------------- MODULE TFBIndProof ----------------------------
(* TLAPS proof (tlapm, SMT back end) of what Apalache checks symbolically on TFBInd.tla: the invariant
   is established by Init, preserved by every step - for ANY number and size of writes - and implies
   Delivered.  TypeInv adds the typing facts the untyped logic needs for arithmetic. *)
EXTENDS TFBInd, TLAPS

TypeInv == /\ stagedLen \in Int /\ pdest \in Int /\ mailbox \in Int /\ closedStaged \in Int /\ closedDest \in Int
           /\ written \in Int /\ cdest \in Int /\ result \in Int /\ closedSet \in BOOLEAN /\ dropped \in BOOLEAN
FullInv == TypeInv /\ IndInv
ASSUME ConstAssump == PreLen \in Nat /\ MaxN \in Nat

THEOREM InitOK == Init => FullInv
  BY ConstAssump DEF Init, FullInv, TypeInv, IndInv, TokenAt

THEOREM StepOK == FullInv /\ [Next]_vars => FullInv'
  <1> SUFFICES ASSUME FullInv, [Next]_vars PROVE FullInv' OBVIOUS
  <1>1. CASE \E n \in 0..MaxN : PWrite(n)
    BY <1>1, ConstAssump DEF FullInv, TypeInv, IndInv, TokenAt, PWrite
  <1>2. CASE PDrop
    BY <1>2, ConstAssump DEF FullInv, TypeInv, IndInv, TokenAt, PDrop
  <1>3. CASE CSwitch
    BY <1>3, ConstAssump DEF FullInv, TypeInv, IndInv, TokenAt, CSwitch
  <1>4. CASE CAwait
    BY <1>4, ConstAssump DEF FullInv, TypeInv, IndInv, TokenAt, CAwait
  <1>5. CASE cpc = "done" /\ UNCHANGED vars
    BY <1>5, ConstAssump DEF FullInv, TypeInv, IndInv, TokenAt, vars
  <1>6. CASE UNCHANGED vars
    BY <1>6, ConstAssump DEF FullInv, TypeInv, IndInv, TokenAt, vars
  <1> QED BY <1>1, <1>2, <1>3, <1>4, <1>5, <1>6 DEF Next

THEOREM DeliveredOK == FullInv => Delivered
  BY DEF FullInv, IndInv, Delivered

THEOREM Safety == Spec => []Delivered
  <1>1. Spec => []FullInv
    BY InitOK, StepOK, PTL DEF Spec
  <1> QED BY <1>1, DeliveredOK, PTL
=============================================================================
