CONSTANTS
  AnyOrder = FALSE
  MinItems = 0
  NC = 3
  L = 3
  MaxItems = 5
  MaxPerChrom = 2
  IPS = {1, 2}
  ZoomLists = "c"
  EndSlack = 1
INIT Init
NEXT Next
INVARIANTS MechSummaryOK MechZoomOK Emit
CHECK_DEADLOCK FALSE
