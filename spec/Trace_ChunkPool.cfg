CONSTANTS
  K <- TraceK
  W <- TraceW
  Fail <- TraceFail
SPECIFICATION TSpec
INVARIANTS TypeOK Ordered ExactlyOnce WaitSafe Outcome NoSkippedFailure
CONSTRAINT HighWater
POSTCONDITION Accepted
CHECK_DEADLOCK FALSE
