------------------------------- MODULE Refusal -------------------------------
(* C13: which input streams the writers must refuse.  A stream is a sequence of
   <<chrom, start, end, value, malformed>>; chromosome indices 1..NC are known (size Sizes[c]),
   NC+1 is a chromosome missing from the chromosome sizes.  MustRefuse lists exactly the classes
   of the property statement; everything else is only required to return (no hang, no panic). *)
EXTENDS BBICommon

Known(it, nc) == it[1] <= nc
Malformed(it) == it[5] = 1

\* consecutive items of the same chromosome run
SameRun(s, i) == i < Len(s) /\ s[i][1] = s[i+1][1]

MustRefuseItem(kind, s, i, sizes, nc) ==
  LET it == s[i] IN
  \/ Malformed(it)
  \/ ~Known(it, nc)
  \/ it[2] > it[3]                                            \* a start beyond its end
  \/ (kind = "bw" /\ Known(it, nc) /\ it[3] > sizes[it[1]])     \* bigWig end beyond the chromosome
  \/ (kind = "bb" /\ Known(it, nc) /\ it[2] > sizes[it[1]])     \* bigBed start beyond the chromosome
  \/ (kind = "bw" /\ SameRun(s, i) /\ it[3] > s[i+1][2])        \* overlapping / out-of-order bigWig intervals
  \/ (kind = "bb" /\ SameRun(s, i) /\ it[2] > s[i+1][2])        \* out-of-order bigBed starts

\* chromosomes out of order when sorted input is required (names sort like their index)
ChromOrderBad(s) == \E i \in 1..(Len(s) - 1) : s[i][1] > s[i+1][1]

\* A violation is only "reached" if no earlier malformed line stopped the parse -- any violation
\* anywhere in the stream must lead to an error result, whichever is met first.
MustRefuse(kind, s, sizes, nc, sorted) ==
  \/ s = <<>>                                                   \* empty input
  \/ \E i \in 1..Len(s) : MustRefuseItem(kind, s, i, sizes, nc)
  \/ (sorted /\ ChromOrderBad(s))

RefusalOK(kind, s, sizes, nc, sorted, result) ==
  /\ result \in {"ok", "err"}                                   \* the call returned: no hang, no panic
  /\ (MustRefuse(kind, s, sizes, nc, sorted) => result = "err")
=============================================================================
