------------------------------ MODULE MC_RTree ------------------------------
(* Exhaustive check of the R-tree design for every block count n in 1..N and fan-out b in 2..B,
   for one and several chromosomes, monotone (bigWig-like) and non-monotone (bigBed-like) ends:
   pointer exactness, containment, Search = LinearScan on every boundary query.  Every (n, b,
   shape) is also emitted as a behaviour: the real writer produces the file with items_per_slot = 1
   (one block per item) and block_size = b. *)
EXTENDS RTree, Json
CONSTANTS N, B, Shapes
VARIABLES n, b, shape
\* section generators: position p = 1..n
SecsOf(nn, sh) ==
  CASE sh = "mono1"  -> [p \in 1..nn |-> <<1, 2 * (p - 1), 2 * (p - 1) + 1>>]                      \* one chromosome, gaps
    [] sh = "adj1"   -> [p \in 1..nn |-> <<1, p - 1, p>>]                                              \* adjacent
    [] sh = "multi"  -> [p \in 1..nn |-> <<1 + ((p - 1) \div 3), 2 * ((p - 1) % 3), 2 * ((p - 1) % 3) + 1>>]   \* 3 blocks per chromosome
    [] sh = "nested" -> [p \in 1..nn |-> <<1, p - 1, IF p % 3 = 1 THEN p + 5 ELSE p>>]                \* long entries before short ones (bigBed)
Init == n \in 1..N /\ b \in 2..B /\ shape \in Shapes
Next == UNCHANGED <<n, b, shape>>
Secs == SecsOf(n, shape)
PtrOK == PointerExact(n, b)
ContainOK == AllContained(Secs, b)
SearchOK == SearchEqualsScan(Secs, b)
Emit == PrintT(<<"REPLAY", ToJson([n |-> n, b |-> b, shape |-> shape, secs |-> Secs, depth |-> Top(n, b) + 1])>>)
=============================================================================
