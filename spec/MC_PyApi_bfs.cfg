CONSTANTS
  Handles = {1}
  Iters = {1}
  Writers = {1}
  Paths = {1, 2, 3, 4, 5}
  N = 100000
  Ranges <- SmallRanges
INIT MCInit
NEXT MCNext
VIEW pvars
INVARIANT TypeOK
INVARIANT ReaderCoherent
INVARIANT IterCoherent
CHECK_DEADLOCK FALSE
