CONSTANTS
  NC = 2
  L = 2
  MaxLen = 2
  Kinds = {"bw", "bb"}
  WithMalformed = FALSE
INIT Init
NEXT Next
INVARIANT Emit
CHECK_DEADLOCK FALSE
