------------------------------ MODULE MC_Pipeline ------------------------------
(* Exhaustive configurations of Pipeline.tla: every chromosome has NSec sections. *)
EXTENDS Pipeline
CONSTANT NSec
SecsUniform == [k \in 1..NChrom |-> NSec]
SecsMixed == <<0, 2, 1>>          \* a chromosome whose buffer is never written (dropped unused), uneven lengths
=============================================================================
