------------------------------ MODULE Obs_TFBRace ------------------------------
(* Race rounds of the real TempFileBuffer (drop vs. the start of a blocking consumer call): every
   round must return, and deliver what TempFileBuffer.tla's Delivered / LenIsWritten demand:
   the destination = pre-existing bytes followed by the k written bytes; len = k. *)
EXTENDS Naturals, Sequences, FiniteSets, TLC, Json, IOUtils
Obs == ndJsonDeserialize(IOEnv.OBS)
VARIABLE x
Init == x = 0
Next == UNCHANGED x
Pre == <<100, 101>>
RoundOK(r) == IF r.prog = "len" THEN r.tag = "len" /\ r.val = <<r.k>>
              ELSE r.tag = "file" /\ r.val = Pre \o [i \in 1..r.k |-> i]
Verdict(o) == IF o.obs.result # "ok" THEN "blocking-call-did-not-return"
              ELSE IF \E i \in 1..Len(o.obs.rounds) : ~RoundOK(o.obs.rounds[i]) THEN "bytes-or-length-wrong"
              ELSE "ok"
Post == /\ \A i \in 1..Len(Obs) : LET v == Verdict(Obs[i]) IN (v = "ok" \/ PrintT(<<"BAD", i, v>>))
        /\ PrintT(<<"CHECKED", Len(Obs)>>)
=============================================================================
