CONSTANTS
  NC = 1
  L = 1
  MaxLen = 2
  Kinds = {"bw", "bb"}
  WithMalformed = TRUE
INIT Init
NEXT Next
INVARIANT Emit
CHECK_DEADLOCK FALSE
