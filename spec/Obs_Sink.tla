------------------------------- MODULE Obs_Sink -------------------------------
(* Every crash prefix reopened with the real readers, and every single injected fault. *)
EXTENDS Naturals, Sequences, FiniteSets, TLC, Json, IOUtils
Obs == ndJsonDeserialize(IOEnv.OBS)
VARIABLE x
Init == x = 0
Next == UNCHANGED x
\* a prefix the readers accept must serve exactly what the complete file serves
Serves(v, p) == p.chroms = v.chroms /\ p.read = v.read /\ p.zooms = v.zooms
PrefixOK(full, p) == p.acc = 1 => Serves(full, p)
\* the destination held another complete file before (o.stale = 1, o.obs.stale = what that file served): an accepted crash image serves
\* exactly the new file, or still exactly the old one - never a mixture
PrefixOKStale(o, p) == p.acc = 1 => (Serves(o.obs.full, p) \/ (o.obs.stale.acc = 1 /\ Serves(o.obs.stale, p)))
Verdict(o) ==
  IF o.mode = "record" THEN
     IF o.obs.result # "ok" THEN "write-failed"
     ELSE IF o.obs.full.acc # 1 THEN "complete-file-rejected"
     ELSE IF "stale" \in DOMAIN o /\ o.stale = 1 /\ \E i \in 1..Len(o.obs.prefixes) : ~PrefixOKStale(o, o.obs.prefixes[i]) THEN "old-and-new-file-mixed"
     ELSE IF ~("stale" \in DOMAIN o /\ o.stale = 1) /\ \E i \in 1..Len(o.obs.prefixes) : ~PrefixOK(o.obs.full, o.obs.prefixes[i]) THEN "partial-file-accepted-with-data-missing"
     ELSE "ok"
  ELSE IF o.mode = "refused" THEN
     \* an input refused part-way (o.valid = the records before the offending one, o.vchroms their chromosome table): whatever the
     \* destination is left with is rejected by the readers, or serves the records it holds completely (the valid prefix, nothing else)
     IF o.obs.result \notin {"ok", "err", "panic"} THEN "did-not-return"
     ELSE IF o.obs.result # "err" THEN "ok"                      \* whether the input is refused at all is C13's business
     ELSE IF o.obs.left.acc = 1 /\ o.obs.left.read # o.valid THEN "partial-file-accepted-after-refused-input"
     ELSE "ok"
  ELSE \* fault: the k-th operation failed: the call must not report success (a panic is not success)
     IF o.obs.result \notin {"ok", "err", "panic"} THEN "did-not-return"
     ELSE IF o.obs.fired = 1 /\ o.obs.result = "ok" THEN "io-failure-reported-as-success"
     ELSE "ok"
Post == /\ \A i \in 1..Len(Obs) : LET v == Verdict(Obs[i]) IN (v = "ok" \/ PrintT(<<"BAD", i, v>>))
        /\ PrintT(<<"CHECKED", Len(Obs)>>)
=============================================================================
