CONSTANTS
  NZooms = 1
  IsBed = FALSE
  HeaderFirst = FALSE
SPECIFICATION Spec
INVARIANTS PrefixSafe Complete
CHECK_DEADLOCK FALSE
