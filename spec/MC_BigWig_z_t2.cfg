CONSTANTS
  AnyOrder = FALSE
  MinItems = 0
  NC = 3
  L = 4
  MaxItems = 3
  MaxPerChrom = 2
  Vals = {1, 3}
  IPS = {1, 2}
  ZoomLists = "b"
INIT Init
NEXT Next
INVARIANTS MechRoundTrip MechZoom Emit
CHECK_DEADLOCK FALSE
