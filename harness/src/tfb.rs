//! C12: replay of TLC schedules of TempFileBuffer.tla on the real TempFileBuffer, and threaded
//! stress runs recorded as begin/end events.
use crate::sinks::SharedSink;
use bigtools::utils::file::tempfilebuffer::{TempFileBuffer, TempFileBufferWriter};
use serde_json::{json, Value};
use std::io::Write;
use std::sync::atomic::{AtomicU64, Ordering};
use std::sync::mpsc;
use std::sync::Arc;
use std::time::Duration;

const PRE: [u8; 2] = [100, 101];
const CALL_TIMEOUT: Duration = Duration::from_secs(4);

fn bytes_json(b: &[u8]) -> Value {
    Value::Array(b.iter().map(|x| json!(*x)).collect())
}

/// "rep": R - every logical byte of a write is laid down R times (writes of tens of KiB, totals on exact multiples of 64 KiB):
/// contents are reported in logical bytes again - the 2 bytes the destination held before, then one value per complete run of R
/// equal bytes; anything else (a torn or missing run) is reported as 255 so that it cannot pass for data
fn squash(b: &[u8], rep: usize) -> Value {
    if rep <= 1 { return bytes_json(b); }
    let mut out: Vec<u8> = b.iter().take(PRE.len()).cloned().collect();
    let rest = if b.len() > PRE.len() { &b[PRE.len()..] } else { &b[0..0] };
    for ch in rest.chunks(rep) {
        if ch.len() == rep && ch.iter().all(|x| *x == ch[0]) { out.push(ch[0]); } else { out.push(255); }
    }
    bytes_json(&out)
}

enum CallRes {
    File(Vec<u8>),
    Len(u64, TempFileBuffer<SharedSink>),
    Err(String),
    Panic(String),
}

fn pmsg(e: Box<dyn std::any::Any + Send>) -> String {
    if let Some(s) = e.downcast_ref::<&str>() {
        s.to_string()
    } else if let Some(s) = e.downcast_ref::<String>() {
        s.clone()
    } else {
        "panic".into()
    }
}

/// Start a (possibly blocking) consumer call on a helper thread.
fn start_call(op: &str, buf: TempFileBuffer<SharedSink>, out: SharedSink) -> mpsc::Receiver<CallRes> {
    let (tx, rx) = mpsc::channel();
    let op = op.to_string();
    std::thread::spawn(move || {
        let r = std::panic::catch_unwind(std::panic::AssertUnwindSafe(move || match op.as_str() {
            "await" => {
                let f = buf.await_real_file();
                CallRes::File(f.contents())
            }
            "ecw" => {
                let mut o = out.clone();
                match buf.expect_closed_write(&mut o) {
                    Ok(()) => CallRes::File(out.contents()),
                    Err(e) => CallRes::Err(e.to_string()),
                }
            }
            "len" => match buf.len() {
                Ok(n) => CallRes::Len(n, buf),
                Err(e) => CallRes::Err(e.to_string()),
            },
            _ => CallRes::Err("bad op".into()),
        }));
        let _ = tx.send(match r {
            Ok(v) => v,
            Err(e) => CallRes::Panic(pmsg(e)),
        });
    });
    rx
}

pub fn run_case(c: &Value) -> Value {
    let inmem = c["inmem"].as_i64().unwrap_or(1) == 1;
    let rep = c["rep"].as_u64().unwrap_or(1).max(1) as usize;
    let hist = c["hist"].as_array().expect("hist");
    let sink = SharedSink::with_short(PRE.to_vec(), c["short"].as_u64().unwrap_or(0) as usize);
    let (b, w): (TempFileBuffer<SharedSink>, TempFileBufferWriter<SharedSink>) = TempFileBuffer::new(inmem);
    let mut buf = Some(b);
    let mut writer = Some(w);
    let mut nextb: u8 = 1;
    let mut events: Vec<Value> = vec![];
    let mut parked: Option<(String, mpsc::Receiver<CallRes>)> = None;
    let mut stash: Option<CallRes> = None;
    let mut result = "ok".to_string();

    // the consumer op a "park" belongs to = next consumer op after it in the schedule
    let next_consumer_op = |i: usize| -> String {
        for e in hist.iter().skip(i + 1) {
            let o = e["op"].as_str().unwrap();
            if o == "await" || o == "ecw" || o == "len" {
                return o.to_string();
            }
        }
        "".into()
    };

    for (i, e) in hist.iter().enumerate() {
        let op = e["op"].as_str().unwrap();
        let mut ev = json!({"ev": op, "n": e["n"].as_i64().unwrap_or(0), "tag": "none", "val": []});
        let mut real_known = true;
        match op {
            "w" => {
                let n = e["n"].as_u64().unwrap() as usize;
                let data: Vec<u8> = (0..n).flat_map(|k| std::iter::repeat(nextb + k as u8).take(rep)).collect();
                nextb += n as u8;
                let wr = writer.as_mut().expect("writer alive");
                let r = std::panic::catch_unwind(std::panic::AssertUnwindSafe(|| {
                    // write_all of an empty slice would not call write(): call write() directly
                    if data.is_empty() { wr.write(&data).map(|_| ()) } else { wr.write_all(&data) }
                }));
                match r {
                    Ok(Ok(())) => {}
                    Ok(Err(e)) => { ev["tag"] = json!("err"); result = format!("io error in write: {}", e); }
                    Err(p) => { ev["tag"] = json!("panic"); result = format!("panic in write: {}", pmsg(p)); }
                }
            }
            "f" => {
                let wr = writer.as_mut().expect("writer alive");
                if let Err(e) = wr.flush() { ev["tag"] = json!("err"); result = format!("io error in flush: {}", e); }
            }
            "drop" => {
                drop(writer.take());
                if let Some((pop, rx)) = parked.take() {
                    // a parked call must return once the producer is gone, with no further help
                    match rx.recv_timeout(CALL_TIMEOUT) {
                        Ok(r) => { stash = Some(r); }
                        Err(_) => { result = format!("hang: parked {} did not return after drop", pop); ev["tag"] = json!("hang"); }
                    }
                    real_known = false; // the returned call may already have copied staged bytes
                }
            }
            "switch" => {
                let b = buf.as_mut().expect("buffer present");
                let r = std::panic::catch_unwind(std::panic::AssertUnwindSafe(|| b.switch(sink.clone())));
                if let Err(p) = r { ev["tag"] = json!("panic"); result = format!("panic in switch: {}", pmsg(p)); }
            }
            "park" => {
                let cop = next_consumer_op(i);
                let b = buf.take().expect("buffer present");
                let rx = start_call(&cop, b, sink.clone());
                // give the helper a moment to actually block on the condition variable
                std::thread::sleep(Duration::from_millis(2));
                match rx.try_recv() {
                    Ok(r) => { stash = Some(r); ev["tag"] = json!("returned_early"); result = "blocking call returned before the producer was dropped".into(); }
                    Err(_) => { parked = Some((cop, rx)); }
                }
            }
            "await" | "ecw" | "len" => {
                let r = if let Some(r) = stash.take() {
                    Some(r)
                } else {
                    let b = buf.take().expect("buffer present");
                    let rx = start_call(op, b, sink.clone());
                    rx.recv_timeout(CALL_TIMEOUT).ok()
                };
                match r {
                    None => { ev["tag"] = json!("hang"); result = format!("hang in {}", op); }
                    Some(CallRes::File(bytes)) => { ev["tag"] = json!("file"); ev["val"] = squash(&bytes, rep); }
                    Some(CallRes::Len(n, b)) => { ev["tag"] = json!("len"); ev["val"] = json!([if n % rep as u64 == 0 { n / rep as u64 } else { 1_000_000 + n }]); buf = Some(b); }
                    Some(CallRes::Err(s)) => { ev["tag"] = json!("err"); result = format!("error in {}: {}", op, s); }
                    Some(CallRes::Panic(s)) => { ev["tag"] = json!("panic"); result = format!("panic in {}: {}", op, s); }
                }
            }
            _ => panic!("unknown op {}", op),
        }
        ev["ready"] = match &buf {
            Some(b) => json!(if b.is_real_file_ready() { 1 } else { 0 }),
            None => json!(2),
        };
        ev["rk"] = json!(if real_known { 1 } else { 0 });
        ev["real"] = squash(&sink.contents(), rep);
        events.push(ev);
        if result != "ok" {
            break;
        }
    }
    json!({"result": result, "events": events, "fail": result != "ok"})
}

// ------------------------------------------------------------------------------------------
// Threaded stress: two real threads, seeded delays, begin/end events stamped by one global
// atomic counter (begin stamp is taken before the call, end stamp after it returns), so the
// merged order never contradicts real time.
// ------------------------------------------------------------------------------------------
struct Rng(u64);
impl Rng {
    fn next(&mut self) -> u64 {
        self.0 ^= self.0 << 13;
        self.0 ^= self.0 >> 7;
        self.0 ^= self.0 << 17;
        self.0
    }
    fn pause(&mut self) {
        match self.next() % 6 {
            0 => std::thread::sleep(Duration::from_micros(self.next() % 300)),
            1 | 2 => std::thread::yield_now(),
            3 => { for _ in 0..(self.next() % 2000) { std::hint::spin_loop(); } }
            _ => {}
        }
    }
}

pub fn run_threaded_case(c: &Value) -> Value {
    let inmem = c["inmem"].as_i64().unwrap_or(1) == 1;
    let seed = c["seed"].as_u64().unwrap_or(1);
    let pp: Vec<i64> = c["pp"].as_array().unwrap().iter().map(|v| v.as_i64().unwrap()).collect();
    let cp = c["cp"].as_str().unwrap().to_string();
    let sink = SharedSink::with_short(PRE.to_vec(), c["short"].as_u64().unwrap_or(0) as usize);
    let (b, w): (TempFileBuffer<SharedSink>, TempFileBufferWriter<SharedSink>) = TempFileBuffer::new(inmem);
    let clock = Arc::new(AtomicU64::new(1));
    let (etx, erx) = mpsc::channel::<Value>();

    let pclock = clock.clone();
    let ptx = etx.clone();
    let producer = std::thread::spawn(move || {
        let mut rng = Rng(seed.wrapping_mul(0x9E3779B97F4A7C15) | 1);
        let mut w = w;
        let mut nextb: u8 = 1;
        for op in pp {
            rng.pause();
            if op == 9 {
                let s = pclock.fetch_add(1, Ordering::SeqCst);
                let _ = ptx.send(json!({"seq": s, "t": "P", "kind": "begin", "op": "f", "n": 0, "tag": "none", "val": []}));
                let _ = w.flush();
                let s = pclock.fetch_add(1, Ordering::SeqCst);
                let _ = ptx.send(json!({"seq": s, "t": "P", "kind": "end", "op": "f", "n": 0, "tag": "none", "val": []}));
            } else {
                let n = op as usize;
                let data: Vec<u8> = (0..n).map(|k| nextb + k as u8).collect();
                nextb += n as u8;
                let s = pclock.fetch_add(1, Ordering::SeqCst);
                let _ = ptx.send(json!({"seq": s, "t": "P", "kind": "begin", "op": "w", "n": n, "tag": "none", "val": []}));
                let r = if data.is_empty() { w.write(&data).map(|_| ()) } else { w.write_all(&data) };
                let s = pclock.fetch_add(1, Ordering::SeqCst);
                let _ = ptx.send(json!({"seq": s, "t": "P", "kind": "end", "op": "w", "n": n, "tag": if r.is_ok() {"none"} else {"err"}, "val": []}));
            }
        }
        rng.pause();
        let s = pclock.fetch_add(1, Ordering::SeqCst);
        let _ = ptx.send(json!({"seq": s, "t": "P", "kind": "begin", "op": "drop", "n": 0, "tag": "none", "val": []}));
        drop(w);
        let s = pclock.fetch_add(1, Ordering::SeqCst);
        let _ = ptx.send(json!({"seq": s, "t": "P", "kind": "end", "op": "drop", "n": 0, "tag": "none", "val": []}));
    });

    let cclock = clock.clone();
    let ctx = etx.clone();
    let csink = sink.clone();
    let consumer = std::thread::spawn(move || {
        let mut rng = Rng(seed.wrapping_mul(0xD1B54A32D192ED03) | 1);
        let ops: Vec<&str> = match cp.as_str() {
            "switch_await" => vec!["switch", "await"],
            "ecw" => vec!["ecw"],
            "len_ecw" => vec!["len", "ecw"],
            "len_len_ecw" => vec!["len", "len", "ecw"],
            _ => vec![],
        };
        let mut buf = Some(b);
        for op in ops {
            rng.pause();
            let s = cclock.fetch_add(1, Ordering::SeqCst);
            let _ = ctx.send(json!({"seq": s, "t": "C", "kind": "begin", "op": op, "n": 0, "tag": "none", "val": []}));
            let (tag, val): (&str, Value) = match op {
                "switch" => { buf.as_mut().unwrap().switch(csink.clone()); ("none", json!([])) }
                "await" => { let f = buf.take().unwrap().await_real_file(); ("file", bytes_json(&f.contents())) }
                "ecw" => { let mut o = csink.clone(); match buf.take().unwrap().expect_closed_write(&mut o) { Ok(()) => ("file", bytes_json(&csink.contents())), Err(_) => ("err", json!([])) } }
                "len" => { match buf.as_ref().unwrap().len() { Ok(n) => ("len", json!([n])), Err(_) => ("err", json!([])) } }
                _ => ("none", json!([])),
            };
            let s = cclock.fetch_add(1, Ordering::SeqCst);
            let _ = ctx.send(json!({"seq": s, "t": "C", "kind": "end", "op": op, "n": 0, "tag": tag, "val": val}));
        }
    });
    drop(etx);

    // watchdog: both threads must finish
    let (dtx, drx) = mpsc::channel();
    std::thread::spawn(move || {
        let p = producer.join();
        let c = consumer.join();
        let _ = dtx.send((p.is_ok(), c.is_ok()));
    });
    let fin = drx.recv_timeout(Duration::from_secs(15));
    let mut events: Vec<Value> = erx.try_iter().collect();
    events.sort_by_key(|e| e["seq"].as_u64().unwrap());
    let result = match fin {
        Err(_) => "hang".to_string(),
        Ok((true, true)) => "ok".to_string(),
        Ok((p, c)) => format!("panic producer_ok={} consumer_ok={}", p, c),
    };
    json!({"result": result, "events": events, "final": bytes_json(&sink.contents()), "fail": result != "ok"})
}

// ------------------------------------------------------------------------------------------
// Race rounds: the producer's drop and the consumer's blocking call are released from a barrier
// at (almost) the same instant, thousands of times, with a swept sub-microsecond offset.  This is
// the window in which a lost wake-up or a non-atomic check-then-wait shows up.
// ------------------------------------------------------------------------------------------
pub fn run_race_case(c: &Value) -> Value {
    let rounds = c["rounds"].as_u64().unwrap_or(1000);
    let seed = c["seed"].as_u64().unwrap_or(1);
    let mut rng = Rng(seed | 1);
    let mut out: Vec<Value> = Vec::with_capacity(rounds as usize);
    let progs = ["switch_await", "ecw", "len"];
    for r in 0..rounds {
        let inmem = rng.next() % 2 == 0;
        let prog = progs[(rng.next() % 3) as usize];
        let k = (rng.next() % 3) as usize; // writes before the drop
        let off_p = rng.next() % 400;
        let off_c = rng.next() % 400;
        let sink = SharedSink::with_short(PRE.to_vec(), c["short"].as_u64().unwrap_or(0) as usize);
        let (mut b, mut w): (TempFileBuffer<SharedSink>, TempFileBufferWriter<SharedSink>) = TempFileBuffer::new(inmem);
        let barrier = Arc::new(std::sync::Barrier::new(2));
        if prog == "switch_await" {
            b.switch(sink.clone());
        }
        let switched_late = false;
        let bp = barrier.clone();
        let producer = std::thread::spawn(move || {
            for i in 0..k {
                let _ = w.write_all(&[(i + 1) as u8]);
            }
            bp.wait();
            for _ in 0..off_p { std::hint::spin_loop(); }
            drop(w);
        });
        let (tx, rx) = mpsc::channel();
        let bc = barrier.clone();
        let csink = sink.clone();
        let prog_s = prog.to_string();
        std::thread::spawn(move || {
            let mut b = b;
            bc.wait();
            for _ in 0..off_c { std::hint::spin_loop(); }
            let res = std::panic::catch_unwind(std::panic::AssertUnwindSafe(move || match prog_s.as_str() {
                "switch_await" => {
                    if switched_late {
                        // switch may already have happened before the barrier: switching twice panics, so only when needed
                    }
                    let f = b.await_real_file();
                    ("file", f.contents())
                }
                "ecw" => {
                    let mut o = csink.clone();
                    let _ = b.expect_closed_write(&mut o);
                    ("file", csink.contents())
                }
                _ => {
                    let n = b.len().unwrap_or(9999);
                    ("len", vec![n as u8])
                }
            }));
            let _ = tx.send(res);
        });
        let got = rx.recv_timeout(Duration::from_secs(4));
        let _ = producer.join();
        match got {
            Err(_) => {
                out.push(json!({"round": r, "prog": prog, "k": k, "tag": "hang", "val": []}));
                return json!({"result": format!("hang: round {} ({}, {} writes): the blocking call did not return after the producer was dropped", r, prog, k), "rounds": out, "fail": true});
            }
            Ok(Err(_)) => { out.push(json!({"round": r, "prog": prog, "k": k, "tag": "panic", "val": []})); }
            Ok(Ok((tag, val))) => { out.push(json!({"round": r, "prog": prog, "k": k, "tag": tag, "val": bytes_json(&val)})); }
        }
    }
    json!({"result": "ok", "rounds": out, "fail": false})
}
