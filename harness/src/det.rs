//! C11: the same (input, format options) written under many configurations and injected delays;
//! reports a digest per run and the interleaving class every staging buffer went through.
use crate::sinks::SharedSink;
use bigtools::beddata::{BedParserParallelStreamingIterator, BedParserStreamingIterator};
use bigtools::bed::bedparser::{parse_bed, parse_bedgraph};
use bigtools::utils::verif;
use bigtools::{BBIWriteOptions, BedEntry, BigBedWrite, BigWigWrite, Value};
use serde_json::{json, Value as J};
use std::collections::HashMap;
use std::io::Write;
use std::sync::{Arc, Mutex};

fn digest(b: &[u8]) -> String {
    let mut h: u64 = 0xcbf29ce484222325;
    for x in b { h ^= *x as u64; h = h.wrapping_mul(0x100000001b3); }
    format!("{:016x}:{}", h, b.len())
}

fn gen_items(c: &J) -> Vec<(String, u32, u32, i64)> {
    // chromosome k has n_k items; positions by a fixed rule (gaps, adjacent runs)
    let mut out = vec![];
    for (k, n) in c["perchrom"].as_array().unwrap().iter().enumerate() {
        let n = n.as_u64().unwrap();
        let name = crate::bbi::chrom_name(k as i64 + 1);
        let mut p = 0u32;
        for i in 0..n {
            let len = 1 + (i % 3) as u32;
            out.push((name.clone(), p, p + len, ((i * 7 + k as u64) % 1000) as i64));
            p += len + if i % 5 == 0 { 2 } else { 0 };
        }
    }
    out
}

pub fn run_case(c: &J) -> J {
    let kind = c["kind"].as_str().unwrap();
    let items = gen_items(c);
    let mut sizes = HashMap::new();
    for (n, _, e, _) in items.iter() {
        let v = sizes.entry(n.clone()).or_insert(0u32);
        *v = (*v).max(*e + 10);
    }
    // text for the file-based sources
    let mut text = String::new();
    for (n, s, e, v) in items.iter() {
        if kind == "bw" { text.push_str(&format!("{}\t{}\t{}\t{}\n", n, s, e, v)); } else { text.push_str(&format!("{}\t{}\t{}\tname{}\t{}\n", n, s, e, v, v % 7)); }
    }
    let mut tf = tempfile::NamedTempFile::new().unwrap();
    tf.write_all(text.as_bytes()).unwrap();
    tf.flush().unwrap();
    let mut offsets: Vec<(u64, String)> = vec![];
    let mut off = 0u64;
    for line in text.split_inclusive('\n') {
        let ch = line.split('\t').next().unwrap().to_string();
        if offsets.last().map(|l| l.1 != ch).unwrap_or(true) { offsets.push((off, ch)); }
        off += line.len() as u64;
    }
    let mut runs = vec![];
    for cfg in c["configs"].as_array().unwrap() {
        let seed = cfg["seed"].as_u64().unwrap_or(0);
        let slow = cfg["slow"].as_str().unwrap_or("none").to_string();
        let events: Arc<Mutex<Vec<(String, u64, u64)>>> = Arc::new(Mutex::new(vec![]));
        let ev2 = events.clone();
        if seed > 0 {
            verif::set_handler(Some(Arc::new(move |name, a, b| {
                ev2.lock().unwrap().push((name.to_string(), a, b));
                // biased delays: make one role slow so that rarely seen interleaving classes are reached
                let slow_hit = match slow.as_str() {
                    "owner" => name.starts_with("pipe.owner") || name == "tfb.switch",
                    "writer" => name == "tfb.update" || name == "pipe.section.write",
                    "drop" => name == "tfb.drop",
                    _ => false,
                };
                if slow_hit { std::thread::sleep(std::time::Duration::from_micros(300 + seed % 1700)); }
                verif::seeded_delay(seed, name, a, b);
            })));
        } else {
            verif::set_handler(Some(Arc::new(move |name, a, b| { ev2.lock().unwrap().push((name.to_string(), a, b)); })));
        }
        let mut opts = BBIWriteOptions::default();
        opts.items_per_slot = c["ips"].as_u64().unwrap_or(1024) as u32;
        opts.block_size = c["bs"].as_u64().unwrap_or(256) as u32;
        opts.compress = c["compress"].as_i64().unwrap_or(1) == 1;
        opts.manual_zoom_sizes = if c["zooms"].is_null() { None } else { Some(c["zooms"].as_array().unwrap().iter().map(|z| z.as_u64().unwrap() as u32).collect()) };
        opts.inmemory = cfg["inmem"].as_i64().unwrap_or(0) == 1;
        opts.channel_size = cfg["chan"].as_u64().unwrap_or(100) as usize;
        let threads = cfg["threads"].as_u64().unwrap_or(1) as usize;
        let rt = if cfg["rt"].as_str().unwrap_or("multi") == "multi" { tokio::runtime::Builder::new_multi_thread().worker_threads(threads).build().unwrap() } else { tokio::runtime::Builder::new_current_thread().build().unwrap() };
        let pass = cfg["pass"].as_i64().unwrap_or(1);
        let source = cfg["source"].as_str().unwrap_or("iter");
        let sink = SharedSink::default();
        let res: Result<(), String> = if kind == "bw" {
            let mut w = BigWigWrite::new(sink.clone(), sizes.clone());
            w.options = opts;
            let vals: Vec<(String, Value)> = items.iter().map(|(n, s, e, v)| (n.clone(), Value { start: *s, end: *e, value: *v as f32 })).collect();
            match (source, pass) {
                ("iter", 1) => w.write(BedParserStreamingIterator::wrap_infallible_iter(vals.into_iter(), false), rt).map_err(|e| e.to_string()),
                ("iter", _) => w.write_multipass(|| Ok(BedParserStreamingIterator::wrap_infallible_iter(vals.clone().into_iter(), false)), rt).map_err(|e| e.to_string()),
                ("file", 1) => w.write(BedParserStreamingIterator::from_bedgraph_file(std::fs::File::open(tf.path()).unwrap(), false), rt).map_err(|e| e.to_string()),
                ("file", _) => w.write_multipass(|| Ok(BedParserStreamingIterator::from_bedgraph_file(std::fs::File::open(tf.path())?, false)), rt).map_err(|e| e.to_string()),
                (_, 1) => w.write(BedParserParallelStreamingIterator::new(offsets.clone(), false, tf.path().to_path_buf(), parse_bedgraph), rt).map_err(|e| e.to_string()),
                (_, _) => w.write_multipass(|| Ok(BedParserParallelStreamingIterator::new(offsets.clone(), false, tf.path().to_path_buf(), parse_bedgraph)), rt).map_err(|e| e.to_string()),
            }
        } else {
            let mut w = BigBedWrite::new(sink.clone(), sizes.clone());
            w.options = opts;
            let vals: Vec<(String, BedEntry)> = items.iter().map(|(n, s, e, v)| (n.clone(), BedEntry { start: *s, end: *e, rest: format!("name{}\t{}", v, v % 7) })).collect();
            match (source, pass) {
                ("iter", 1) => w.write(BedParserStreamingIterator::wrap_infallible_iter(vals.into_iter(), false), rt).map_err(|e| e.to_string()),
                ("iter", _) => w.write_multipass(|| Ok(BedParserStreamingIterator::wrap_infallible_iter(vals.clone().into_iter(), false)), rt).map_err(|e| e.to_string()),
                ("file", 1) => w.write(BedParserStreamingIterator::from_bed_file(std::fs::File::open(tf.path()).unwrap(), false), rt).map_err(|e| e.to_string()),
                ("file", _) => w.write_multipass(|| Ok(BedParserStreamingIterator::from_bed_file(std::fs::File::open(tf.path())?, false)), rt).map_err(|e| e.to_string()),
                (_, 1) => w.write(BedParserParallelStreamingIterator::new(offsets.clone(), false, tf.path().to_path_buf(), parse_bed), rt).map_err(|e| e.to_string()),
                (_, _) => w.write_multipass(|| Ok(BedParserParallelStreamingIterator::new(offsets.clone(), false, tf.path().to_path_buf(), parse_bed)), rt).map_err(|e| e.to_string()),
            }
        };
        verif::set_handler(None);
        // interleaving class per staging buffer: where the switch landed relative to the producer's updates and drop
        let evs = events.lock().unwrap().clone();
        let mut classes: HashMap<String, u64> = HashMap::new();
        let mut per: HashMap<u64, Vec<&str>> = HashMap::new();
        for (n, a, _) in evs.iter() { if n.starts_with("tfb.") { per.entry(*a).or_default().push(n.as_str()); } }
        for (_, seq) in per.iter() {
            let sw = seq.iter().position(|n| *n == "tfb.switch");
            let first_up = seq.iter().position(|n| *n == "tfb.update");
            let dr = seq.iter().position(|n| *n == "tfb.drop");
            let cls = match (sw, first_up, dr) {
                (None, _, _) => "never-switched",
                (Some(s), _, Some(d)) if s > d => "switch-after-drop",
                (Some(s), Some(u), _) if s < u => "switch-before-first-write",
                (Some(_), None, _) => "switch-no-writes",
                _ => "switch-between-writes",
            };
            *classes.entry(cls.to_string()).or_insert(0) += 1;
        }
        let mut run = json!({"ok": if res.is_ok() {1} else {0}, "err": res.err().unwrap_or_default(), "digest": digest(&sink.contents()), "classes": classes, "events": evs.len()});
        if cfg["trace"].as_i64().unwrap_or(0) == 1 {
            // the recorded hook events themselves (for trace validation against Pipeline.tla)
            run["trace"] = J::Array(evs.iter().map(|(n, a, b)| json!([n, a, b])).collect());
        }
        runs.push(run);
    }
    json!({"result": "ok", "runs": runs})
}
