//! C13: feed arbitrary (valid, degenerate, invalid) streams to the real writers through the
//! iterator source, the serial file source and the per-chromosome parallel source; report only
//! how the call ended.
use crate::bbi::{chrom_name, Ctx};
use crate::sinks::SharedSink;
use bigtools::beddata::{BedParserParallelStreamingIterator, BedParserStreamingIterator};
use bigtools::bed::bedparser::{parse_bed, parse_bedgraph};
use bigtools::{BBIWriteOptions, BedEntry, BigBedWrite, BigWigWrite, InputSortType, Value};
use serde_json::{json, Value as J};
use std::collections::HashMap;
use std::io::Write;

fn name_of(c: i64, nc: i64) -> String {
    if c <= nc { chrom_name(c) } else { "chrZz".to_string() }
}

fn text_of(c: &J, kind: &str, nc: i64) -> String {
    let mut s = String::new();
    for it in c["items"].as_array().unwrap() {
        let (ch, st, en, v, m) = (it[0].as_i64().unwrap(), it[1].as_i64().unwrap(), it[2].as_i64().unwrap(), it[3].as_i64().unwrap(), it[4].as_i64().unwrap());
        if m == 1 {
            // malformed line, in one of several shapes (chosen per case)
            let n = name_of(ch, nc);
            let line = match c["mshape"].as_i64().unwrap_or(0) {
                1 => format!("{}\t\t{}\t{}\n", n, en, v),          // empty start column
                2 => format!("{}\t{}\t\t{}\n", n, st, v),          // empty end column
                3 => format!("{}\t{}\n", n, st),                    // columns missing
                4 => format!("{}\t-{}\t{}\t{}\n", n, st + 1, en, v), // negative start
                5 => format!("{}\t{}x\t{}\t{}\n", n, st, en, v),    // digits followed by junk
                6 => format!("{}\t{}.0\t{}\t{}\n", n, st, en, v),   // a float where an integer belongs
                7 => format!("{}\t{}\u{E000}\t{}\t{}\n", n, st, en, v), // a byte that is not text (the placeholder becomes 0xE9: invalid UTF-8)
                _ => format!("{}\t{}\tx{}\t{}\n", n, st, en, v),    // non-numeric end column
            };
            s.push_str(&line);
        } else if kind == "bw" {
            s.push_str(&format!("{}\t{}\t{}\t{}\n", name_of(ch, nc), st, en, v));
        } else {
            s.push_str(&format!("{}\t{}\t{}\tk{}\n", name_of(ch, nc), st, en, v));
        }
    }
    s
}

/// offsets of the first line of every run of equal chromosome names (linear scan; the harness
/// does not depend on bigtools' own indexer here)
fn run_offsets(text: &[u8]) -> Vec<(u64, String)> {
    let mut out: Vec<(u64, String)> = vec![];
    let mut off = 0u64;
    for line in text.split_inclusive(|b| *b == b'\n') {
        let chrom = String::from_utf8_lossy(line.split(|b| *b == b'\t').next().unwrap_or(b"")).to_string();
        if out.last().map(|l| l.1 != chrom).unwrap_or(true) {
            out.push((off, chrom));
        }
        off += line.len() as u64;
    }
    out
}

pub fn run_case(c: &J) -> J {
    let kind = c["kind"].as_str().unwrap().to_string();
    let nc = c["NC"].as_i64().unwrap();
    let l = c["L"].as_i64().unwrap() as u32;
    let source = c["source"].as_str().unwrap_or("iter");
    let pass = c["pass"].as_i64().unwrap_or(1);
    let sorted = c["sorted"].as_i64().unwrap_or(1) == 1;
    let mut sizes = HashMap::new();
    for i in 1..=nc { sizes.insert(chrom_name(i), l); }
    let mut opts = BBIWriteOptions::default();
    opts.items_per_slot = c["ips"].as_u64().unwrap_or(2) as u32;
    opts.block_size = 2;
    opts.inmemory = true;
    opts.manual_zoom_sizes = Some(c["zooms"].as_array().map(|a| a.iter().map(|v| v.as_u64().unwrap() as u32).collect()).unwrap_or(vec![2]));
    opts.input_sort_type = if sorted { InputSortType::ALL } else { InputSortType::START };
    let allow = !sorted;
    let threads = c["threads"].as_u64().unwrap_or(1) as usize;
    let rt = if threads > 1 { tokio::runtime::Builder::new_multi_thread().worker_threads(threads).build().unwrap() } else { tokio::runtime::Builder::new_current_thread().build().unwrap() };
    let sink = SharedSink::default();
    let _ctx: Option<Ctx> = None;
    let has_malformed = c["items"].as_array().unwrap().iter().any(|it| it[4].as_i64().unwrap() == 1);
    let text: Vec<u8> = {
        // the placeholder of malformed shape 7 becomes one byte that is not valid UTF-8
        let t = text_of(c, &kind, nc).into_bytes();
        let mut out = Vec::with_capacity(t.len());
        let mut i = 0;
        while i < t.len() {
            if t[i..].starts_with(&[0xEE, 0x80, 0x80]) { out.push(0xE9); i += 3; } else { out.push(t[i]); i += 1; }
        }
        out
    };
    let res: Result<(), String> = if kind == "bw" {
        let mut w = BigWigWrite::new(sink.clone(), sizes);
        w.options = opts;
        match source {
            "iter" => {
                if has_malformed { return json!({"result": "na"}); }
                let items: Vec<(String, Value)> = c["items"].as_array().unwrap().iter().map(|it| (name_of(it[0].as_i64().unwrap(), nc), Value { start: it[1].as_u64().unwrap() as u32, end: it[2].as_u64().unwrap() as u32, value: it[3].as_i64().unwrap() as f32 })).collect();
                if pass == 2 { w.write_multipass(|| Ok(BedParserStreamingIterator::wrap_infallible_iter(items.clone().into_iter(), allow)), rt).map_err(|e| e.to_string()) }
                else { w.write(BedParserStreamingIterator::wrap_infallible_iter(items.into_iter(), allow), rt).map_err(|e| e.to_string()) }
            }
            "file" => {
                let t = text.clone();
                if pass == 2 { w.write_multipass(|| Ok(BedParserStreamingIterator::from_bedgraph_file(std::io::Cursor::new(t.clone()), allow)), rt).map_err(|e| e.to_string()) }
                else { w.write(BedParserStreamingIterator::from_bedgraph_file(std::io::Cursor::new(t), allow), rt).map_err(|e| e.to_string()) }
            }
            _ => {
                let mut f = tempfile::NamedTempFile::new().unwrap();
                f.write_all(&text).unwrap();
                f.flush().unwrap();
                let path = f.path().to_path_buf();
                let idx = run_offsets(&text);
                if pass == 2 { w.write_multipass(|| Ok(BedParserParallelStreamingIterator::new(idx.clone(), allow, path.clone(), parse_bedgraph)), rt).map_err(|e| e.to_string()) }
                else { w.write(BedParserParallelStreamingIterator::new(idx, allow, path, parse_bedgraph), rt).map_err(|e| e.to_string()) }
            }
        }
    } else {
        let mut w = BigBedWrite::new(sink.clone(), sizes);
        w.options = opts;
        match source {
            "iter" => {
                if has_malformed { return json!({"result": "na"}); }
                let items: Vec<(String, BedEntry)> = c["items"].as_array().unwrap().iter().map(|it| (name_of(it[0].as_i64().unwrap(), nc), BedEntry { start: it[1].as_u64().unwrap() as u32, end: it[2].as_u64().unwrap() as u32, rest: format!("k{}", it[3]) })).collect();
                if pass == 2 { w.write_multipass(|| Ok(BedParserStreamingIterator::wrap_infallible_iter(items.clone().into_iter(), allow)), rt).map_err(|e| e.to_string()) }
                else { w.write(BedParserStreamingIterator::wrap_infallible_iter(items.into_iter(), allow), rt).map_err(|e| e.to_string()) }
            }
            "file" => {
                let t = text.clone();
                if pass == 2 { w.write_multipass(|| Ok(BedParserStreamingIterator::from_bed_file(std::io::Cursor::new(t.clone()), allow)), rt).map_err(|e| e.to_string()) }
                else { w.write(BedParserStreamingIterator::from_bed_file(std::io::Cursor::new(t), allow), rt).map_err(|e| e.to_string()) }
            }
            _ => {
                let mut f = tempfile::NamedTempFile::new().unwrap();
                f.write_all(&text).unwrap();
                f.flush().unwrap();
                let path = f.path().to_path_buf();
                let idx = run_offsets(&text);
                if pass == 2 { w.write_multipass(|| Ok(BedParserParallelStreamingIterator::new(idx.clone(), allow, path.clone(), parse_bed)), rt).map_err(|e| e.to_string()) }
                else { w.write(BedParserParallelStreamingIterator::new(idx, allow, path, parse_bed), rt).map_err(|e| e.to_string()) }
            }
        }
    };
    match res {
        Ok(()) => json!({"result": "ok", "len": sink.contents().len()}),
        Err(e) => json!({"result": "err", "err": e}),
    }
}
