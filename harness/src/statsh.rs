//! C17 (library part): bigwig_average_over_bed on a bigWig written by the real writer.
use crate::bbi::{chrom_name, write_file, Ctx};
use bigtools::utils::misc::{bigwig_average_over_bed, Name};
use bigtools::BigWigRead;
use serde_json::{json, Value as J};

fn milli(x: f64) -> (i64, i64) {
    if x.is_nan() { (0, 1) } else { ((x * 1000.0).round() as i64, 0) }
}

pub fn run_case(c: &J) -> J {
    let nch = c["items"].as_array().unwrap().iter().map(|it| it[0].as_i64().unwrap()).max().unwrap_or(1);
    let mut cc = c.clone();
    cc["kind"] = json!("bw");
    cc["chroms"] = J::Array((0..nch).map(|_| json!(40)).collect());
    // chromosomes that do not come in ascending order are written with input sort type START (ids by first appearance)
    let cs: Vec<i64> = c["items"].as_array().unwrap().iter().map(|it| it[0].as_i64().unwrap()).collect();
    let sorted = cs.windows(2).all(|w| w[0] <= w[1]);
    cc["opts"] = json!({"ips": 2, "bs": 2, "zooms": [], "zmode": "manual", "compress": 1, "inmem": 1, "threads": 1, "rt": "current", "pass": 1, "chan": 100,
                        "sort": if sorted { "all" } else { "start" }});
    let ctx = Ctx::from(&cc);
    let sink = crate::sinks::SharedSink::default();
    if let Err(e) = write_file(&cc, &ctx, sink.clone()) {
        return json!({"rc": 1, "parsed": 0, "rows": [], "same_as_t1": 1, "err": e});
    }
    let bw = BigWigRead::open(sink.reader()).unwrap();
    let mut bed = String::new();
    for (i, r) in c["regions"].as_array().unwrap().iter().enumerate() {
        bed.push_str(&format!("{}\t{}\t{}\tr{}\tx{}\n", chrom_name(r[0].as_i64().unwrap()), r[1], r[2], i + 1, i + 1));
    }
    let mut rows = vec![];
    for (i, r) in bigwig_average_over_bed(std::io::Cursor::new(bed.into_bytes()), bw, Name::Column(3)).enumerate() {
        match r {
            Ok((name, e)) => {
                let (mean0_m, mean0_nan) = milli(e.mean0);
                let (mean_m, mean_nan) = milli(e.mean);
                let (min_m, min_nan) = milli(e.min);
                let (max_m, max_nan) = milli(e.max);
                rows.push(json!({"name": if name == format!("r{}", i + 1) { i + 1 } else { 0 }, "size": e.size, "bases": e.bases, "sum_m": milli(e.sum).0,
                    "mean0_m": mean0_m, "mean0_nan": mean0_nan, "mean_m": mean_m, "mean_nan": mean_nan, "min_m": min_m, "min_nan": min_nan, "max_m": max_m, "max_nan": max_nan}));
            }
            Err(e) => return json!({"rc": 1, "parsed": 0, "rows": rows, "same_as_t1": 1, "err": e.to_string()}),
        }
    }
    json!({"rc": 0, "parsed": 1, "rows": rows, "same_as_t1": 1, "err": ""})
}
