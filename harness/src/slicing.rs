//! C18: the indexer, FileView and the chunker on materialised files.
use bigtools::bed::indexer::index_chroms;
use bigtools::utils::file::file_view::FileView;
use bigtools::utils::file::split_file_into_chunks_by_size;
use serde_json::{json, Value as J};
use std::io::{Read, Seek, SeekFrom, Write};

pub fn materialise(lines: &J, fin: i64) -> Vec<u8> {
    let arr = lines.as_array().unwrap();
    let mut out = vec![];
    for (i, l) in arr.iter().enumerate() {
        let chrom = l[0].as_i64().unwrap();
        let len = l[1].as_i64().unwrap() as usize;
        let newline = !(i + 1 == arr.len() && fin == 0);
        let body_len = len - if newline { 1 } else { 0 };
        let mut body = format!("c{}\t0\t1", chrom);
        if body_len > body.len() {
            body.push('\t');
            // multi-byte characters in the extra column: a probe may land inside one
            while body.len() < body_len {
                if body.len() + 2 <= body_len { body.push('é'); } else { body.push('x'); }
            }
        }
        assert_eq!(body.len(), body_len, "line cannot be materialised with this length");
        out.extend_from_slice(body.as_bytes());
        if newline {
            out.push(b'\n');
        }
    }
    out
}

fn temp_with(bytes: &[u8]) -> (tempfile::NamedTempFile, std::fs::File) {
    let mut f = tempfile::NamedTempFile::new().unwrap();
    f.write_all(bytes).unwrap();
    f.flush().unwrap();
    let h = std::fs::File::open(f.path()).unwrap();
    (f, h)
}

pub fn run_case(c: &J) -> J {
    match c["mode"].as_str().unwrap() {
        "index" => {
            let bytes = materialise(&c["lines"], c["fin"].as_i64().unwrap_or(1));
            let (_t, h) = temp_with(&bytes);
            match index_chroms(h) {
                Ok(Some(v)) => {
                    let idx: Vec<J> = v.iter().map(|(o, n)| json!([o, n[1..].parse::<i64>().unwrap_or(-1)])).collect();
                    json!({"result": "ok", "some": 1, "idx": idx})
                }
                Ok(None) => json!({"result": "ok", "some": 0, "idx": []}),
                Err(e) => json!({"result": "err", "err": e.to_string(), "some": 0, "idx": []}),
            }
        }
        "chunks" => {
            let bytes = materialise(&c["lines"], c["fin"].as_i64().unwrap_or(1));
            let (_t, h) = temp_with(&bytes);
            match split_file_into_chunks_by_size(h, c["n"].as_u64().unwrap()) {
                Ok(v) => json!({"result": "ok", "chunks": v.iter().map(|(a, b)| json!([a, b])).collect::<Vec<_>>()}),
                Err(e) => json!({"result": "err", "err": e.to_string(), "chunks": []}),
            }
        }
        "view" => {
            let n = c["n"].as_u64().unwrap() as usize;
            let bytes: Vec<u8> = (0..n).map(|i| i as u8).collect();
            let (_t, h) = temp_with(&bytes);
            let a = c["a"].as_u64().unwrap();
            let b = c["b"].as_u64().unwrap();
            let b = if b >= 9999 { u64::MAX } else { b };
            let mut v = match FileView::new(h, a, b) {
                Ok(v) => v,
                Err(e) => return json!({"result": "err", "err": e.to_string(), "steps": []}),
            };
            let mut steps = vec![];
            for op in c["ops"].as_array().unwrap() {
                let k = op[1].as_i64().unwrap();
                match op[0].as_str().unwrap() {
                    "read" => {
                        let mut buf = vec![0u8; k as usize];
                        match v.read(&mut buf) {
                            Ok(m) => steps.push(json!([m, buf[..m].iter().map(|x| *x as i64).collect::<Vec<_>>()])),
                            Err(e) => return json!({"result": "err", "err": e.to_string(), "steps": steps}),
                        }
                    }
                    name => {
                        let pos = match name { "start" => SeekFrom::Start(k as u64), "cur" => SeekFrom::Current(k), _ => SeekFrom::End(k) };
                        match v.seek(pos) {
                            Ok(p) => steps.push(json!([p, []])),
                            Err(e) => return json!({"result": "err", "err": e.to_string(), "steps": steps}),
                        }
                    }
                }
            }
            json!({"result": "ok", "steps": steps})
        }
        _ => panic!("bad mode"),
    }
}
