//! C03: one real reader instance driven through a history of calls (plain, cached, reopened).
use crate::bbi::{chrom_map, write_file, Ctx};
use bigtools::utils::reopen::{Reopen, ReopenableFile};
use bigtools::{BigBedRead, BigWigRead, CachedBBIFileRead};
use serde_json::{json, Value as J};

enum Rd {
    Plain(BigWigRead<ReopenableFile>),
    Cached(BigWigRead<CachedBBIFileRead<ReopenableFile>>),
}

/// the same history over a bigBed reader (C04): interval = get_interval (entries <<start, end, id>>), zoom, badchrom, cached, reopen
enum RdB {
    Plain(BigBedRead<ReopenableFile>),
    Cached(BigBedRead<CachedBBIFileRead<ReopenableFile>>),
}

fn run_case_bb(c: &J, ctx: &mut Ctx, path: &std::path::Path) -> J {
    let n_items = c["items"].as_array().map(|a| a.len()).unwrap_or(0);
    let rests: std::collections::HashMap<String, i64> = (1..=n_items).map(|i| (crate::bbi::rest_for(c, i), i as i64)).collect();
    let zres: Option<u32> = c["opts"]["zooms"].as_array().and_then(|z| z.first()).and_then(|z| z.as_i64()).map(|z| ctx.pos_in(z));
    let mut zlevel = vec![];
    if let Some(res) = zres {
        let mut fresh = match BigBedRead::open_file(path) { Ok(r) => r, Err(e) => return json!({"result": "openerr", "err": e.to_string()}) };
        let chroms: Vec<(String, u32)> = fresh.chroms().iter().map(|c| (c.name.clone(), c.length)).collect();
        for (name, len) in chroms {
            match fresh.get_zoom_interval(&name, 0, len, res).map_err(|e| e.to_string()).and_then(|it| it.collect::<Result<Vec<_>, _>>().map_err(|e| e.to_string())) {
                Ok(v) => for z in v { zlevel.push(json!([ctx.chrom_idx(&name), ctx.pos_out(z.start), ctx.pos_out(z.end)])); },
                Err(e) => return json!({"result": "zoomerr", "err": e}),
            }
        }
    }
    let mut rd = match BigBedRead::open_file(path) { Ok(r) => RdB::Plain(r), Err(e) => return json!({"result": "openerr", "err": e.to_string()}) };
    let mut answers = vec![];
    for h in c["hist"].as_array().unwrap() {
        let op = h["op"].as_str().unwrap();
        match op {
            "cached" => {
                rd = match rd { RdB::Plain(r) => RdB::Cached(r.cached()), other => other };
                answers.push(json!({"op": op, "c": 0, "s": 0, "e": 0, "iv": [], "vals": [], "err": 0}));
            }
            "reopen" => {
                rd = match rd {
                    RdB::Plain(r) => match r.reopen() { Ok(n) => RdB::Plain(n), Err(e) => return json!({"result": "reopenerr", "err": e.to_string()}) },
                    RdB::Cached(r) => match r.reopen() { Ok(n) => RdB::Cached(n), Err(e) => return json!({"result": "reopenerr", "err": e.to_string()}) },
                };
                answers.push(json!({"op": op, "c": 0, "s": 0, "e": 0, "iv": [], "vals": [], "err": 0}));
            }
            "badchrom" => {
                let k = answers.len() % 2;
                let failed = match (&mut rd, k) {
                    (RdB::Plain(r), 0) => r.get_interval("no_such_chromosome", 0, 5).is_err(),
                    (RdB::Cached(r), 0) => r.get_interval("no_such_chromosome", 0, 5).is_err(),
                    (RdB::Plain(r), _) => r.get_zoom_interval("no_such_chromosome", 0, 5, zres.unwrap_or(2)).is_err(),
                    (RdB::Cached(r), _) => r.get_zoom_interval("no_such_chromosome", 0, 5, zres.unwrap_or(2)).is_err(),
                };
                answers.push(json!({"op": op, "c": 0, "s": 0, "e": 0, "iv": [], "vals": [], "err": if failed {1} else {0}}));
            }
            "interval" | "zoom" => {
                let ci = h["c"].as_i64().unwrap();
                let name = ctx.names[(ci - 1) as usize].clone();
                let (s, e) = (h["s"].as_i64().unwrap(), h["e"].as_i64().unwrap());
                let (ss, ee) = (ctx.pos_in(s), ctx.pos_in(e));
                let mut iv = vec![];
                let mut zr = vec![];
                let mut err = 0;
                if op == "interval" {
                    let res: Result<Vec<bigtools::BedEntry>, String> = match &mut rd {
                        RdB::Plain(r) => r.get_interval(&name, ss, ee).map_err(|e| e.to_string()).and_then(|it| it.collect::<Result<Vec<_>, _>>().map_err(|e| e.to_string())),
                        RdB::Cached(r) => r.get_interval(&name, ss, ee).map_err(|e| e.to_string()).and_then(|it| it.collect::<Result<Vec<_>, _>>().map_err(|e| e.to_string())),
                    };
                    match res { Ok(v) => for x in v { iv.push(json!([ctx.pos_out(x.start), ctx.pos_out(x.end), *rests.get(&x.rest).unwrap_or(&0)])); }, Err(_) => err = 1 }
                } else {
                    let res = zres.unwrap_or(2);
                    let got: Result<Vec<bigtools::ZoomRecord>, String> = match &mut rd {
                        RdB::Plain(r) => r.get_zoom_interval(&name, ss, ee, res).map_err(|e| e.to_string()).and_then(|it| it.collect::<Result<Vec<_>, _>>().map_err(|e| e.to_string())),
                        RdB::Cached(r) => r.get_zoom_interval(&name, ss, ee, res).map_err(|e| e.to_string()).and_then(|it| it.collect::<Result<Vec<_>, _>>().map_err(|e| e.to_string())),
                    };
                    match got { Ok(v) => for z in v { zr.push(json!([ctx.pos_out(z.start), ctx.pos_out(z.end)])); }, Err(_) => err = 1 }
                }
                answers.push(json!({"op": op, "c": ci, "s": s, "e": e, "iv": iv, "vals": [], "zr": zr, "err": err}));
            }
            _ => panic!("bad op for a bigBed reader"),
        }
    }
    json!({"result": "ok", "answers": answers, "zlevel": zlevel, "unmapped": if ctx.unmapped {1} else {0}})
}

pub fn run_case(c: &J) -> J {
    let mut ctx = Ctx::from(c);
    let _ = chrom_map(c, &ctx);
    let dir = tempfile::tempdir().unwrap();
    let path = dir.path().join("f.bw");
    let f = std::fs::File::create(&path).unwrap();
    // write with the real writer into a real file
    {
        let sink = crate::sinks::SharedSink::default();
        if let Err(e) = write_file(c, &ctx, sink.clone()) {
            return json!({"result": "err", "err": e});
        }
        use std::io::Write;
        let mut f = f;
        f.write_all(&sink.contents()).unwrap();
    }
    if c["kind"].as_str().unwrap_or("bw") == "bb" {
        return run_case_bb(c, &mut ctx, &path);
    }
    let mut rd = match BigWigRead::open_file(&path) {
        Ok(r) => Rd::Plain(r),
        Err(e) => return json!({"result": "openerr", "err": e.to_string()}),
    };
    // the file's zoom level (when one was asked for), read once through a separate fresh reader: [chrom, start, end] in file order
    let mut zlevel = vec![];
    let zres: Option<u32> = c["opts"]["zooms"].as_array().and_then(|z| z.first()).and_then(|z| z.as_i64()).map(|z| ctx.pos_in(z));
    if let Some(res) = zres {
        let mut fresh = match BigWigRead::open_file(&path) { Ok(r) => r, Err(e) => return json!({"result": "openerr", "err": e.to_string()}) };
        let chroms: Vec<(String, u32)> = fresh.chroms().iter().map(|c| (c.name.clone(), c.length)).collect();
        for (name, len) in chroms {
            match fresh.get_zoom_interval(&name, 0, len, res).map_err(|e| e.to_string()).and_then(|it| it.collect::<Result<Vec<_>, _>>().map_err(|e| e.to_string())) {
                Ok(v) => for z in v { zlevel.push(json!([ctx.chrom_idx(&name), ctx.pos_out(z.start), ctx.pos_out(z.end)])); },
                Err(e) => return json!({"result": "zoomerr", "err": e}),
            }
        }
    }
    let mut answers = vec![];
    for h in c["hist"].as_array().unwrap() {
        let op = h["op"].as_str().unwrap();
        let skip = h["skip"].as_i64().unwrap_or(0) == 1;
        match op {
            "cached" => {
                rd = match rd {
                    Rd::Plain(r) => Rd::Cached(r.cached()),
                    other => other,
                };
                answers.push(json!({"op": op, "c": 0, "s": 0, "e": 0, "iv": [], "vals": [], "err": 0}));
            }
            "reopen" => {
                rd = match rd {
                    Rd::Plain(r) => match r.reopen() { Ok(n) => Rd::Plain(n), Err(e) => return json!({"result": "reopenerr", "err": e.to_string()}) },
                    Rd::Cached(r) => match r.reopen() { Ok(n) => Rd::Cached(n), Err(e) => return json!({"result": "reopenerr", "err": e.to_string()}) },
                };
                answers.push(json!({"op": op, "c": 0, "s": 0, "e": 0, "iv": [], "vals": [], "err": 0}));
            }
            "interval" | "values" => {
                let ci = h["c"].as_i64().unwrap();
                let name = ctx.names[(ci - 1) as usize].clone();
                let (s, e) = (h["s"].as_i64().unwrap(), h["e"].as_i64().unwrap());
                let (ss, ee) = (ctx.pos_in(s), ctx.pos_in(e));
                let mut iv = vec![];
                let mut vals = vec![];
                let mut err = 0;
                if op == "interval" {
                    let res: Result<Vec<bigtools::Value>, String> = match &mut rd {
                        Rd::Plain(r) => r.get_interval(&name, ss, ee).map_err(|e| e.to_string()).and_then(|it| it.collect::<Result<Vec<_>, _>>().map_err(|e| e.to_string())),
                        Rd::Cached(r) => r.get_interval(&name, ss, ee).map_err(|e| e.to_string()).and_then(|it| it.collect::<Result<Vec<_>, _>>().map_err(|e| e.to_string())),
                    };
                    match res {
                        Ok(v) => { if !skip { for x in v { iv.push(json!([ctx.pos_out(x.start), ctx.pos_out(x.end), ctx.val_out(x.value)])); } } }
                        Err(_) => err = 1,
                    }
                } else {
                    let res = match &mut rd {
                        Rd::Plain(r) => r.values(&name, ss, ee).map_err(|e| e.to_string()),
                        Rd::Cached(r) => r.values(&name, ss, ee).map_err(|e| e.to_string()),
                    };
                    match res {
                        Ok(v) => { if !skip { for x in v { vals.push(json!(ctx.val_out(x))); } } }
                        Err(_) => err = 1,
                    }
                }
                answers.push(json!({"op": if skip { "skipped" } else { op }, "c": ci, "s": s, "e": e, "iv": iv, "vals": vals, "err": err}));
            }
            "badchrom" => {
                // a query naming a chromosome the file does not have (alternately a data and a zoom query): must fail, and must not disturb the reader
                let k = answers.len() % 2;
                let failed = match (&mut rd, k) {
                    (Rd::Plain(r), 0) => r.get_interval("no_such_chromosome", 0, 5).is_err(),
                    (Rd::Cached(r), 0) => r.get_interval("no_such_chromosome", 0, 5).is_err(),
                    (Rd::Plain(r), _) => r.get_zoom_interval("no_such_chromosome", 0, 5, zres.unwrap_or(2)).is_err(),
                    (Rd::Cached(r), _) => r.get_zoom_interval("no_such_chromosome", 0, 5, zres.unwrap_or(2)).is_err(),
                };
                answers.push(json!({"op": op, "c": 0, "s": 0, "e": 0, "iv": [], "vals": [], "err": if failed {1} else {0}}));
            }
            "zoom" => {
                // a zoom-level query through the SAME reader instance (shares the lazily read info and both caches with data queries)
                let ci = h["c"].as_i64().unwrap();
                let name = ctx.names[(ci - 1) as usize].clone();
                let (s, e) = (h["s"].as_i64().unwrap(), h["e"].as_i64().unwrap());
                let (ss, ee) = (ctx.pos_in(s), ctx.pos_in(e));
                let res = zres.unwrap_or(2);
                let got: Result<Vec<bigtools::ZoomRecord>, String> = match &mut rd {
                    Rd::Plain(r) => r.get_zoom_interval(&name, ss, ee, res).map_err(|e| e.to_string()).and_then(|it| it.collect::<Result<Vec<_>, _>>().map_err(|e| e.to_string())),
                    Rd::Cached(r) => r.get_zoom_interval(&name, ss, ee, res).map_err(|e| e.to_string()).and_then(|it| it.collect::<Result<Vec<_>, _>>().map_err(|e| e.to_string())),
                };
                let mut zr = vec![];
                let mut err = 0;
                match got { Ok(v) => for z in v { zr.push(json!([ctx.pos_out(z.start), ctx.pos_out(z.end)])); }, Err(_) => err = 1 }
                answers.push(json!({"op": op, "c": ci, "s": s, "e": e, "iv": [], "vals": [], "zr": zr, "err": err}));
            }
            "par" => {
                // N readers obtained by reopen() from the current one, used AT THE SAME TIME from N threads (as the
                // multi-threaded converters do): every answer is recorded and judged like a sequential one
                let n = h["n"].as_u64().unwrap_or(4) as usize;
                let rounds = h["rounds"].as_u64().unwrap_or(20) as usize;
                let qs: Vec<(i64, i64, i64)> = h["qs"].as_array().unwrap().iter().map(|q| (q[0].as_i64().unwrap(), q[1].as_i64().unwrap(), q[2].as_i64().unwrap())).collect();
                let mut handles = vec![];
                for t in 0..n {
                    let mut r = match &rd {
                        Rd::Plain(r) => match r.reopen() { Ok(n) => Rd::Plain(n), Err(e) => return json!({"result": "reopenerr", "err": e.to_string()}) },
                        Rd::Cached(r) => match r.reopen() { Ok(n) => Rd::Cached(n), Err(e) => return json!({"result": "reopenerr", "err": e.to_string()}) },
                    };
                    let qs = qs.clone();
                    let cc = c.clone();
                    handles.push(std::thread::spawn(move || {
                        let mut ctx = Ctx::from(&cc);
                        let mut out = vec![];
                        for round in 0..rounds {
                            for (k, (ci, s, e)) in qs.iter().enumerate() {
                                if (k + round + t) % 2 == 1 { continue; }       // different threads interleave different queries
                                let name = ctx.names[(*ci - 1) as usize].clone();
                                let (ss, ee) = (ctx.pos_in(*s), ctx.pos_in(*e));
                                let res: Result<Vec<bigtools::Value>, String> = match &mut r {
                                    Rd::Plain(r) => r.get_interval(&name, ss, ee).map_err(|e| e.to_string()).and_then(|it| it.collect::<Result<Vec<_>, _>>().map_err(|e| e.to_string())),
                                    Rd::Cached(r) => r.get_interval(&name, ss, ee).map_err(|e| e.to_string()).and_then(|it| it.collect::<Result<Vec<_>, _>>().map_err(|e| e.to_string())),
                                };
                                let mut iv = vec![];
                                let mut err = 0;
                                match res { Ok(v) => for x in v { iv.push(json!([ctx.pos_out(x.start), ctx.pos_out(x.end), ctx.val_out(x.value)])); }, Err(_) => err = 1 }
                                out.push(json!({"op": "interval", "c": ci, "s": s, "e": e, "iv": iv, "vals": [], "err": err}));
                            }
                        }
                        (out, ctx.unmapped)
                    }));
                }
                answers.push(json!({"op": "reopen", "c": 0, "s": 0, "e": 0, "iv": [], "vals": [], "err": 0}));
                for hd in handles {
                    match hd.join() {
                        Ok((out, um)) => {
                            if um { ctx.unmapped = true; }
                            // identical answers are recorded once (the judgement is per distinct answer)
                            for a in out { if !answers.contains(&a) { answers.push(a); } }
                        }
                        Err(_) => answers.push(json!({"op": "interval", "c": 1, "s": 0, "e": 0, "iv": [], "vals": [], "err": 1})),
                    }
                }
            }
            _ => panic!("bad op"),
        }
    }
    json!({"result": "ok", "answers": answers, "zlevel": zlevel, "unmapped": if ctx.unmapped {1} else {0}})
}
