//! C14: the sequence of operations reaching the destination; every crash prefix reopened with the
//! real readers; single injected faults.
use crate::bbi::{bb_items, bw_items, chrom_map, observe_bb, observe_bw, options_from, runtime_from, Ctx};
use crate::sinks::OpSink;
use bigtools::beddata::BedParserStreamingIterator;
use bigtools::{BigBedWrite, BigWigWrite, InputSortType};
use serde_json::{json, Value as J};

fn write_to(c: &J, ctx: &Ctx, sink: OpSink) -> Result<(), String> {
    let kind = c["kind"].as_str().unwrap();
    let opts = options_from(c, ctx);
    let allow = matches!(opts.input_sort_type, InputSortType::START);
    let pass = c["opts"]["pass"].as_i64().unwrap_or(1);
    let rt = runtime_from(c);
    if kind == "bw" {
        let items = bw_items(c, ctx);
        let mut w = BigWigWrite::new(sink, chrom_map(c, ctx));
        w.options = opts;
        if pass == 2 { w.write_multipass(|| Ok(BedParserStreamingIterator::wrap_infallible_iter(items.clone().into_iter(), allow)), rt).map_err(|e| e.to_string()) }
        else { w.write(BedParserStreamingIterator::wrap_infallible_iter(items.into_iter(), allow), rt).map_err(|e| e.to_string()) }
    } else {
        let items = bb_items(c, ctx);
        let mut w = BigBedWrite::new(sink, chrom_map(c, ctx));
        w.options = opts;
        if pass == 2 { w.write_multipass(|| Ok(BedParserStreamingIterator::wrap_infallible_iter(items.clone().into_iter(), allow)), rt).map_err(|e| e.to_string()) }
        else { w.write(BedParserStreamingIterator::wrap_infallible_iter(items.into_iter(), allow), rt).map_err(|e| e.to_string()) }
    }
}

fn observe(c: &J, bytes: Vec<u8>) -> J {
    let mut ctx = Ctx::from(c);
    let r = std::panic::catch_unwind(std::panic::AssertUnwindSafe(|| {
        if c["kind"].as_str().unwrap() == "bw" { observe_bw(c, &mut ctx, bytes) } else { observe_bb(c, &mut ctx, bytes) }
    }));
    match r {
        Ok(v) => v,
        Err(_) => json!({"result": "panic"}),
    }
}

fn slim(o: &J) -> J {
    // what a reader is served: chromosome table, all records, every advertised zoom level
    let ok = o["result"] == "ok" && o["readok"].as_i64().unwrap_or(1) == 1;
    json!({"acc": if ok {1} else {0}, "chroms": if ok { o["chroms"].clone() } else { json!([]) },
           "read": if ok { o["read"].clone() } else { json!([]) }, "zooms": if ok { o["zooms"].clone() } else { json!([]) }})
}

pub fn run_case(c: &J) -> J {
    let ctx = Ctx::from(c);
    match c["mode"].as_str().unwrap() {
        "record" => {
            // "stale": the destination already holds another COMPLETE file (written here by the real writer from "stale_items") that
            // the new write goes over: a crash image is then old bytes with a prefix of the new operations applied
            let mut pre: Vec<u8> = vec![];
            let mut stale_view = J::Null;
            if c["stale"].as_i64().unwrap_or(0) == 1 {
                let mut ca = c.clone();
                ca["items"] = c["stale_items"].clone();
                let sa = OpSink::new(None);
                if let Err(e) = write_to(&ca, &Ctx::from(&ca), sa.clone()) {
                    return json!({"result": "err", "err": format!("stale file: {}", e)});
                }
                pre = sa.inner.lock().unwrap().data.clone();
                // (projected like every crash image: through the NEW case's naming of values / entries)
                stale_view = slim(&observe(c, pre.clone()));
            }
            let sink = OpSink::new(None);
            sink.inner.lock().unwrap().data = pre.clone();
            let res = write_to(c, &ctx, sink.clone());
            if let Err(e) = res {
                return json!({"result": "err", "err": e});
            }
            let g = sink.inner.lock().unwrap();
            let ops: Vec<J> = g.ops.iter().map(|(k, off, b)| {
                let o = *off as usize;
                let fin = *k == 'w' && o + b.len() <= g.data.len() && g.data[o..o + b.len()] == b[..];
                json!({"ev": k.to_string(), "off": off, "len": b.len(), "zero": if b.iter().all(|x| *x == 0) {1} else {0}, "final": if fin {1} else {0}})
            }).collect();
            if let Some(path) = c["dump"].as_str() {
                std::fs::write(path, &g.data).expect("dump");
            }
            let full = observe(c, g.data.clone());
            // every crash prefix
            let mut img: Vec<u8> = pre.clone();
            let mut prefixes = vec![];
            let mut last_sig: Option<Vec<u8>> = None;
            for (k, (kind, off, b)) in g.ops.iter().enumerate() {
                if *kind == 'w' {
                    let off = *off as usize;
                    if img.len() < off + b.len() { img.resize(off + b.len(), 0); }
                    img[off..off + b.len()].copy_from_slice(b);
                }
                // only re-open when the image changed
                if *kind == 'w' || last_sig.is_none() {
                    let o = slim(&observe(c, img.clone()));
                    let mut p = o.clone();
                    p["k"] = json!(k + 1);
                    prefixes.push(p);
                    last_sig = Some(vec![]);
                }
            }
            json!({"result": "ok", "nops": g.ops.len(), "ops": ops, "full": slim(&full), "prefixes": prefixes, "filelen": g.data.len(), "stale": stale_view})
        }
        "refused" => {
            // an input the writer refuses part-way: what is the destination left with?
            let sink = OpSink::new(None);
            let res = std::panic::catch_unwind(std::panic::AssertUnwindSafe(|| write_to(c, &ctx, sink.clone())));
            let r = match res { Ok(Ok(())) => "ok", Ok(Err(_)) => "err", Err(_) => "panic" };
            let data = sink.inner.lock().map(|g| g.data.clone()).unwrap_or_default();
            let left = slim(&observe(c, data.clone()));
            json!({"result": r, "left": left, "filelen": data.len()})
        }
        "fault" => {
            let k = c["fault"].as_u64().unwrap() as usize;
            let sink = OpSink::new(Some(k));
            let res = std::panic::catch_unwind(std::panic::AssertUnwindSafe(|| write_to(c, &ctx, sink.clone())));
            let fired = sink.inner.lock().map(|g| g.failed).unwrap_or(true);
            let r = match res { Ok(Ok(())) => "ok", Ok(Err(_)) => "err", Err(_) => "panic" };
            json!({"result": r, "fired": if fired {1} else {0}, "fault": k})
        }
        _ => panic!("bad mode"),
    }
}
