//! In-memory destinations whose contents stay observable after ownership has been handed to the
//! code under test.
use std::io::{self, Read, Seek, SeekFrom, Write};
use std::sync::{Arc, Mutex};

#[derive(Clone, Default)]
pub struct SharedSink {
    inner: Arc<Mutex<(Vec<u8>, u64)>>, // (data, position)
    /// when non-zero, one `write` call accepts at most this many bytes (a legal `Write`: callers must loop)
    short: usize,
}

impl SharedSink {
    pub fn with(data: Vec<u8>) -> Self {
        let pos = data.len() as u64;
        SharedSink { inner: Arc::new(Mutex::new((data, pos))), short: 0 }
    }
    /// a destination that takes at most `n` bytes per `write` call
    pub fn with_short(data: Vec<u8>, n: usize) -> Self {
        let mut s = Self::with(data);
        s.short = n;
        s
    }
    pub fn contents(&self) -> Vec<u8> {
        self.inner.lock().unwrap().0.clone()
    }
    pub fn reader(&self) -> io::Cursor<Vec<u8>> {
        io::Cursor::new(self.contents())
    }
}

impl Write for SharedSink {
    fn write(&mut self, buf: &[u8]) -> io::Result<usize> {
        let buf = if self.short > 0 && buf.len() > self.short { &buf[..self.short] } else { buf };
        let mut g = self.inner.lock().unwrap();
        let pos = g.1 as usize;
        if g.0.len() < pos {
            g.0.resize(pos, 0);
        }
        let end = pos + buf.len();
        if g.0.len() < end {
            g.0.resize(end, 0);
        }
        g.0[pos..end].copy_from_slice(buf);
        g.1 = end as u64;
        Ok(buf.len())
    }
    fn flush(&mut self) -> io::Result<()> {
        Ok(())
    }
}

impl Seek for SharedSink {
    fn seek(&mut self, pos: SeekFrom) -> io::Result<u64> {
        let mut g = self.inner.lock().unwrap();
        let len = g.0.len() as i128;
        let cur = g.1 as i128;
        let np = match pos {
            SeekFrom::Start(k) => k as i128,
            SeekFrom::Current(k) => cur + k as i128,
            SeekFrom::End(k) => len + k as i128,
        };
        if np < 0 {
            return Err(io::Error::new(io::ErrorKind::InvalidInput, "seek before start"));
        }
        g.1 = np as u64;
        Ok(g.1)
    }
}

impl Read for SharedSink {
    fn read(&mut self, buf: &mut [u8]) -> io::Result<usize> {
        let mut g = self.inner.lock().unwrap();
        let pos = (g.1 as usize).min(g.0.len());
        let n = buf.len().min(g.0.len() - pos);
        buf[..n].copy_from_slice(&g.0[pos..pos + n]);
        g.1 = (pos + n) as u64;
        Ok(n)
    }
}

/// A sink that logs every operation reaching the destination and can fail the k-th one.
#[derive(Clone)]
pub struct OpSink {
    pub inner: Arc<Mutex<OpState>>,
}
pub struct OpState {
    pub data: Vec<u8>,
    pub pos: u64,
    pub ops: Vec<(char, u64, Vec<u8>)>, // ('w', offset, bytes) ('s', target, []) ('f', 0, [])
    pub fail_at: Option<usize>,
    pub nops: usize,
    pub failed: bool,
}
impl OpSink {
    pub fn new(fail_at: Option<usize>) -> Self {
        OpSink { inner: Arc::new(Mutex::new(OpState { data: vec![], pos: 0, ops: vec![], fail_at, nops: 0, failed: false })) }
    }
    fn tick(g: &mut OpState) -> io::Result<()> {
        let k = g.nops;
        g.nops += 1;
        if g.fail_at == Some(k) {
            g.failed = true;
            return Err(io::Error::new(io::ErrorKind::Other, "injected fault"));
        }
        Ok(())
    }
}
impl Write for OpSink {
    fn write(&mut self, buf: &[u8]) -> io::Result<usize> {
        let mut g = self.inner.lock().unwrap();
        OpSink::tick(&mut g)?;
        let pos = g.pos as usize;
        if g.data.len() < pos + buf.len() {
            g.data.resize(pos + buf.len(), 0);
        }
        g.data[pos..pos + buf.len()].copy_from_slice(buf);
        let p = g.pos;
        g.ops.push(('w', p, buf.to_vec()));
        g.pos += buf.len() as u64;
        Ok(buf.len())
    }
    fn flush(&mut self) -> io::Result<()> {
        let mut g = self.inner.lock().unwrap();
        OpSink::tick(&mut g)?;
        g.ops.push(('f', 0, vec![]));
        Ok(())
    }
}
impl Seek for OpSink {
    fn seek(&mut self, pos: SeekFrom) -> io::Result<u64> {
        let mut g = self.inner.lock().unwrap();
        OpSink::tick(&mut g)?;
        let len = g.data.len() as i128;
        let cur = g.pos as i128;
        let np = match pos {
            SeekFrom::Start(k) => k as i128,
            SeekFrom::Current(k) => cur + k as i128,
            SeekFrom::End(k) => len + k as i128,
        };
        if np < 0 {
            return Err(io::Error::new(io::ErrorKind::InvalidInput, "seek before start"));
        }
        g.pos = np as u64;
        let p = g.pos;
        g.ops.push(('s', p, vec![]));
        Ok(p)
    }
}
