//! In-memory destinations whose contents stay observable after ownership has been handed to the
//! code under test.
use std::io::{self, Read, Seek, SeekFrom, Write};
use std::sync::{Arc, Mutex};

#[derive(Clone, Default)]
pub struct SharedSink {
    inner: Arc<Mutex<(Vec<u8>, u64)>>, // (data, position)
}

impl SharedSink {
    pub fn with(data: Vec<u8>) -> Self {
        let pos = data.len() as u64;
        SharedSink { inner: Arc::new(Mutex::new((data, pos))) }
    }
    pub fn contents(&self) -> Vec<u8> {
        self.inner.lock().unwrap().0.clone()
    }
    pub fn reader(&self) -> io::Cursor<Vec<u8>> {
        io::Cursor::new(self.contents())
    }
}

impl Write for SharedSink {
    fn write(&mut self, buf: &[u8]) -> io::Result<usize> {
        let mut g = self.inner.lock().unwrap();
        let pos = g.1 as usize;
        if g.0.len() < pos {
            g.0.resize(pos, 0);
        }
        let end = pos + buf.len();
        if g.0.len() < end {
            g.0.resize(end, 0);
        }
        g.0[pos..end].copy_from_slice(buf);
        g.1 = end as u64;
        Ok(buf.len())
    }
    fn flush(&mut self) -> io::Result<()> {
        Ok(())
    }
}

impl Seek for SharedSink {
    fn seek(&mut self, pos: SeekFrom) -> io::Result<u64> {
        let mut g = self.inner.lock().unwrap();
        let len = g.0.len() as i128;
        let cur = g.1 as i128;
        let np = match pos {
            SeekFrom::Start(k) => k as i128,
            SeekFrom::Current(k) => cur + k as i128,
            SeekFrom::End(k) => len + k as i128,
        };
        if np < 0 {
            return Err(io::Error::new(io::ErrorKind::InvalidInput, "seek before start"));
        }
        g.1 = np as u64;
        Ok(g.1)
    }
}

impl Read for SharedSink {
    fn read(&mut self, buf: &mut [u8]) -> io::Result<usize> {
        let mut g = self.inner.lock().unwrap();
        let pos = (g.1 as usize).min(g.0.len());
        let n = buf.len().min(g.0.len() - pos);
        buf[..n].copy_from_slice(&g.0[pos..pos + n]);
        g.1 = (pos + n) as u64;
        Ok(n)
    }
}
