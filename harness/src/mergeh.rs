//! C15 (library part): merge_sections_many, merge_into, fill, fill_start_to_end on TLC-generated
//! streams.  Model positions are embedded so that model windows of W bases coincide with the
//! merger's real 50,000-base work windows.
use bigtools::utils::fill::{fill, fill_start_to_end};
use bigtools::utils::merge::{merge_into, merge_sections_many};
use bigtools::Value;
use serde_json::{json, Value as J};

const DATA_SIZE: i64 = 50000;

fn g(w: i64) -> Vec<i64> {
    match w {
        1 => vec![0],
        2 => vec![0, 25000],
        3 => vec![0, 1, 49999],
        4 => vec![0, 1, 25000, 49999],
        _ => (0..w).collect(),
    }
}
fn emb(p: i64, w: i64) -> u32 {
    if w == 0 { return p as u32; }
    ((p / w) * DATA_SIZE + g(w)[(p % w) as usize]) as u32
}
fn unemb(x: u32, w: i64, bad: &mut bool) -> i64 {
    if w == 0 { return x as i64; }
    let k = x as i64 / DATA_SIZE;
    let r = x as i64 % DATA_SIZE;
    match g(w).iter().position(|v| *v == r) {
        Some(i) => k * w + i as i64,
        None => { *bad = true; -1 - x as i64 }
    }
}
// "vexp": every value is multiplied by 2^vexp on the way in and divided on the way out (exact for the small integers
// used): a merger must treat very small and very large magnitudes like any other number
fn vals_of_x(a: &J, w: i64, vexp: i32) -> Vec<Value> {
    let k = (2.0f32).powi(vexp);
    a.as_array().unwrap().iter().map(|it| Value { start: emb(it[0].as_i64().unwrap(), w), end: emb(it[1].as_i64().unwrap(), w), value: it[2].as_i64().unwrap() as f32 * k }).collect()
}
fn vals_of(a: &J, w: i64) -> Vec<Value> { vals_of_x(a, w, 0) }
fn out_of_x(v: &[Value], w: i64, bad: &mut bool, nonint: &mut bool, vexp: i32) -> J {
    let k = (2.0f32).powi(vexp);
    J::Array(v.iter().map(|x| {
        let y = x.value / k;
        if y.fract() != 0.0 { *nonint = true; }
        json!([unemb(x.start, w, bad), unemb(x.end, w, bad), y as i64])
    }).collect())
}
fn out_of(v: &[Value], w: i64, bad: &mut bool, nonint: &mut bool) -> J { out_of_x(v, w, bad, nonint, 0) }

pub fn run_case(c: &J) -> J {
    let w = c["W"].as_i64().unwrap_or(0);
    let mut bad = false;
    let mut nonint = false;
    match c["mode"].as_str().unwrap() {
        "many" => {
            let vexp = c["vexp"].as_i64().unwrap_or(0) as i32;
            let streams: Vec<_> = c["streams"].as_array().unwrap().iter().map(|s| vals_of_x(s, w, vexp).into_iter().map(Ok::<Value, std::io::Error>)).collect();
            let out: Result<Vec<Value>, _> = merge_sections_many(streams).collect();
            match out {
                Ok(v) => { let o = out_of_x(&v, w, &mut bad, &mut nonint, vexp); json!({"result": "ok", "out": o, "unmapped": bad as i64, "nonint": nonint as i64}) }
                Err(e) => json!({"result": "err", "err": e.to_string()}),
            }
        }
        "into" => {
            let one = &vals_of(&json!([c["one"]]), 0)[0];
            let two = &vals_of(&json!([c["two"]]), 0)[0];
            let (a, b, cc, d) = merge_into(*one, *two);
            let mut pieces = vec![a];
            if let Some(x) = b { pieces.push(x); }
            if let Some(x) = cc { pieces.push(x); }
            if let Some(x) = d { pieces.push(x); }
            let o = out_of(&pieces, 0, &mut bad, &mut nonint);
            json!({"result": "ok", "out": o, "unmapped": 0, "nonint": nonint as i64})
        }
        "fill" => {
            let st = vals_of(&c["stream"], 0).into_iter().map(Ok::<Value, std::io::Error>);
            let out: Result<Vec<Value>, _> = if c["hasRange"].as_i64().unwrap() == 1 {
                fill_start_to_end(st, c["rs"].as_u64().unwrap() as u32, c["re"].as_u64().unwrap() as u32).collect()
            } else {
                fill(st).collect()
            };
            match out {
                Ok(v) => { let o = out_of(&v, 0, &mut bad, &mut nonint); json!({"result": "ok", "out": o, "unmapped": 0, "nonint": nonint as i64}) }
                Err(e) => json!({"result": "err", "err": e.to_string()}),
            }
        }
        _ => panic!("bad mode"),
    }
}
