//! `vh` — conformance harness of /verif.  It only drives the real bigtools code and records what
//! it did; it never judges (every verdict is a TLA+ formula evaluated by TLC).
//!
//!   vh <sub> IN.ndjson OUT.ndjson      one behaviour per input line, one observation per output
//!                                      line (flushed immediately so that a supervisor can detect
//!                                      hangs), `case` copied through.
mod sinks;
mod tfb;
mod bbi;
mod refuse;
mod reader;
mod slicing;
mod mergeh;
mod sinkh;
mod statsh;
mod det;
mod autosqlh;

use serde_json::{json, Value};
use std::io::{BufRead, BufReader, Write};

pub type CaseFn = fn(&Value) -> Value;

fn run_cases(inp: &str, outp: &str, f: CaseFn) {
    let rd = BufReader::new(std::fs::File::open(inp).expect("open input"));
    let mut out = std::fs::OpenOptions::new().append(true).create(true).open(outp).expect("open output");
    if std::env::var_os("VH_PANIC_TRACE").is_none() {
        std::panic::set_hook(Box::new(|_| {})); // panics of the code under test are data, not noise
    }
    // fail fast on a badly broken tree: after VH_MAX_FAIL cases that the sub-command marked
    // "fail" (hang of a helper thread, panic ...) the remaining cases are skipped, not run
    let max_fail: usize = std::env::var("VH_MAX_FAIL").ok().and_then(|s| s.parse().ok()).unwrap_or(12);
    let mut fails = 0usize;
    for line in rd.lines() {
        let line = line.expect("read");
        if line.trim().is_empty() {
            continue;
        }
        let case: Value = serde_json::from_str(&line).expect("json");
        if fails >= max_fail {
            let mut o = case.clone();
            o["obs"] = json!({"result": "skipped"});
            let mut s = serde_json::to_string(&o).unwrap();
            s.push('\n');
            out.write_all(s.as_bytes()).unwrap();
            continue;
        }
        let res = std::panic::catch_unwind(std::panic::AssertUnwindSafe(|| f(&case)));
        let obs = match res {
            Ok(v) => v,
            Err(e) => {
                let msg = if let Some(s) = e.downcast_ref::<&str>() {
                    s.to_string()
                } else if let Some(s) = e.downcast_ref::<String>() {
                    s.clone()
                } else {
                    "panic".to_string()
                };
                json!({"result": "panic", "err": msg})
            }
        };
        if obs["fail"].as_bool().unwrap_or(false) {
            fails += 1;
        }
        let mut o = case.clone();
        o["obs"] = obs;
        let mut s = serde_json::to_string(&o).unwrap();
        s.push('\n');
        out.write_all(s.as_bytes()).unwrap();
        out.flush().unwrap();
    }
}

fn main() {
    let args: Vec<String> = std::env::args().collect();
    if args.len() < 4 {
        eprintln!("usage: vh <sub> IN OUT [args]");
        std::process::exit(2);
    }
    let f: CaseFn = match args[1].as_str() {
        "tfb" => tfb::run_case,
        "tfb_threads" => tfb::run_threaded_case,
        "tfb_race" => tfb::run_race_case,
        "bbi" => bbi::run_case,
        "readfile" => bbi::run_readfile,
        "refuse" => refuse::run_case,
        "reader" => reader::run_case,
        "slicing" => slicing::run_case,
        "merge" => mergeh::run_case,
        "sink" => sinkh::run_case,
        "stats" => statsh::run_case,
        "det" => det::run_case,
        "autosql" => autosqlh::run_case,
        other => {
            eprintln!("unknown subcommand {}", other);
            std::process::exit(2);
        }
    };
    run_cases(&args[2], &args[3], f);
}
