//! Write a bigWig / bigBed with the real writers from a TLC-generated layout and observe
//! everything the real readers return (chromosome table, full reads, summary, zoom levels,
//! range queries).  Positions may be embedded (scaled) on the way in and are mapped back on the
//! way out; values travel as integer tokens.
use crate::sinks::SharedSink;
use bigtools::beddata::BedParserStreamingIterator;
use bigtools::{BBIWriteOptions, BedEntry, BigBedRead, BigBedWrite, BigWigRead, BigWigWrite, InputSortType, Value};
use serde_json::{json, Value as J};
use std::collections::HashMap;

pub const NAN_TOKEN: i64 = -99;
pub const INF_TOKEN: i64 = 3;
pub const INF_STAT: i64 = 1_000_000_000;
const WEIRD: [u32; 11] = [
    0x8000_0000, // -0.0
    0x0000_0001, // smallest subnormal
    0x7F7F_FFFF, // f32::MAX
    0xFF7F_FFFF, // f32::MIN
    0x3DCC_CCCD, // 0.1
    0x3EAA_AAAB, // 1/3
    0x0080_0000, // smallest normal
    0xC2F6_E979, // -123.456
    0x7F80_0000, // +infinity
    0xFF80_0000, // -infinity
    0x7FC0_0001, // a NaN with a payload bit
];

pub fn chrom_name(i: i64) -> String {
    // names sort like their index (for InputSortType::ALL)
    format!("chr{}{}", (b'A' + ((i - 1) / 26) as u8) as char, (b'a' + ((i - 1) % 26) as u8) as char)
}

pub struct Ctx {
    pub scale: u32,
    pub vmap: String,
    pub voff: i64,   // rotates the table of special values, so that tokens 1..3 reach every entry over the cases
    pub unmapped: bool,
    pub nonint: bool,
    pub names: Vec<String>, // index-1 -> name
}

impl Ctx {
    pub fn from(c: &J) -> Ctx {
        let n = c["chroms"].as_array().map(|a| a.len()).unwrap_or(0);
        Ctx {
            scale: c["scale"].as_u64().unwrap_or(1) as u32,
            vmap: c["vmap"].as_str().unwrap_or("int").to_string(),
            voff: c["voff"].as_i64().unwrap_or(0),
            unmapped: false,
            nonint: false,
            // "varlen": names of very different lengths (the chromosome tree pads every key to the longest) that still sort like
            // their index; otherwise the fixed-length chrAa, chrAb, ...
            names: if c["names"].as_str().unwrap_or("") == "varlen" {
                (1..=n).map(|i| format!("c{:04}{}", i, ["", "_x", "_long_name", "_a_much_longer_chromosome_name_for_padding"][i % 4])).collect()
            } else {
                (1..=n as i64).map(chrom_name).collect()
            },
        }
    }
    pub fn pos_in(&self, p: i64) -> u32 {
        (p as u64 * self.scale as u64) as u32
    }
    pub fn pos_out(&mut self, p: u32) -> i64 {
        if p % self.scale != 0 {
            self.unmapped = true;
            return -1 - p as i64;
        }
        (p / self.scale) as i64
    }
    pub fn val_in(&self, t: i64) -> f32 {
        if self.vmap == "weird" {
            f32::from_bits(WEIRD[((t + self.voff).rem_euclid(WEIRD.len() as i64)) as usize])
        } else if self.vmap == "intinf" && t == INF_TOKEN {
            f32::INFINITY                       // one token stands for +infinity (a value the writers accept)
        } else {
            t as f32
        }
    }
    pub fn val_out(&mut self, v: f32) -> i64 {
        if self.vmap == "intinf" && v == f32::INFINITY {
            return INF_TOKEN;
        }
        if v.is_nan() && self.vmap != "weird" {
            return NAN_TOKEN;
        }
        if self.vmap == "weird" {
            for (i, b) in WEIRD.iter().enumerate() {
                if v.to_bits() == *b {
                    return (i as i64 - self.voff).rem_euclid(WEIRD.len() as i64);
                }
            }
            self.nonint = true;
            return -77;
        }
        // bit-identity with the token's f32 image
        let t = v as i64;
        if (t as f32).to_bits() == v.to_bits() && t.abs() < (1 << 24) {
            t
        } else {
            self.nonint = true;
            -77
        }
    }
    /// statistics (f64) -> integer when integral; also divides out the position scale `k` times
    pub fn num_out(&mut self, x: f64, scale_pow: u32) -> i64 {
        let mut y = x;
        for _ in 0..scale_pow {
            y /= self.scale as f64;
        }
        if y.is_finite() && y.fract() == 0.0 && y.abs() < 2e9 {
            y as i64
        } else if self.vmap == "intinf" && y == f64::INFINITY {
            INF_STAT                            // statistics of a record that holds the infinite value
        } else {
            self.nonint = true;
            -77
        }
    }
    pub fn chrom_idx(&self, name: &str) -> i64 {
        self.names.iter().position(|n| n == name).map(|p| p as i64 + 1).unwrap_or(0)
    }
}

pub fn options_from(c: &J, ctx: &Ctx) -> BBIWriteOptions {
    let o = &c["opts"];
    let mut opt = BBIWriteOptions::default();
    opt.items_per_slot = o["ips"].as_u64().unwrap_or(1024) as u32;
    opt.block_size = o["bs"].as_u64().unwrap_or(256) as u32;
    opt.compress = o["compress"].as_i64().unwrap_or(1) == 1;
    opt.inmemory = o["inmem"].as_i64().unwrap_or(1) == 1;
    opt.channel_size = o["chan"].as_u64().unwrap_or(100) as usize;
    opt.input_sort_type = if o["sort"].as_str().unwrap_or("all") == "start" { InputSortType::START } else { InputSortType::ALL };
    match o["zmode"].as_str().unwrap_or("manual") {
        "auto" => {
            opt.manual_zoom_sizes = None;
            opt.initial_zoom_size = o["izs"].as_u64().unwrap_or(160) as u32 * ctx.scale;
            opt.max_zooms = o["maxz"].as_u64().unwrap_or(10) as u32;
        }
        _ => {
            let z: Vec<u32> = o["zooms"].as_array().map(|a| a.iter().map(|v| v.as_u64().unwrap() as u32 * ctx.scale).collect()).unwrap_or_default();
            opt.manual_zoom_sizes = Some(z);
            // max_zooms set next to a manual list (--nzooms with --zooms): the list decides which levels are written
            if let Some(m) = o["maxz"].as_u64() { opt.max_zooms = m as u32; }
        }
    }
    opt
}

pub fn runtime_from(c: &J) -> tokio::runtime::Runtime {
    let o = &c["opts"];
    let threads = o["threads"].as_u64().unwrap_or(1) as usize;
    if o["rt"].as_str().unwrap_or("current") == "multi" {
        tokio::runtime::Builder::new_multi_thread().worker_threads(threads.max(1)).build().unwrap()
    } else {
        tokio::runtime::Builder::new_current_thread().build().unwrap()
    }
}

pub fn chrom_map(c: &J, ctx: &Ctx) -> HashMap<String, u32> {
    let mut m = HashMap::new();
    for (i, sz) in c["chroms"].as_array().unwrap().iter().enumerate() {
        m.insert(ctx.names[i].clone(), ctx.pos_in(sz.as_i64().unwrap()));
    }
    m
}

pub fn rest_for(c: &J, i: usize) -> String {
    match c["restmode"].as_str().unwrap_or("uniq") {
        "same" => "x".to_string(),
        "none" => String::new(),
        "cols" => {
            // k<i> plus (i mod 21) extra tab separated UTF-8 columns
            let mut s = format!("k{}", i);
            for k in 0..(i % 21) {
                s.push('\t');
                s.push_str(["1", "+", "géne", "0,0,255", "名前", "x y", ".", "-7", "a;b", "100"][k % 10]);
            }
            s
        }
        _ => format!("k{}", i),
    }
}

pub fn bw_items(c: &J, ctx: &Ctx) -> Vec<(String, Value)> {
    c["items"].as_array().unwrap().iter().map(|it| {
        let ci = it[0].as_i64().unwrap();
        (ctx.names[(ci - 1) as usize].clone(), Value { start: ctx.pos_in(it[1].as_i64().unwrap()), end: ctx.pos_in(it[2].as_i64().unwrap()), value: ctx.val_in(it[3].as_i64().unwrap()) })
    }).collect()
}

pub fn bb_items(c: &J, ctx: &Ctx) -> Vec<(String, BedEntry)> {
    c["items"].as_array().unwrap().iter().enumerate().map(|(i, it)| {
        let ci = it[0].as_i64().unwrap();
        (ctx.names[(ci - 1) as usize].clone(), BedEntry { start: ctx.pos_in(it[1].as_i64().unwrap()), end: ctx.pos_in(it[2].as_i64().unwrap()), rest: rest_for(c, i + 1) })
    }).collect()
}

/// write with the real writer into `sink`; Ok(()) or Err(text)
pub fn write_file(c: &J, ctx: &Ctx, sink: SharedSink) -> Result<(), String> {
    let kind = c["kind"].as_str().unwrap();
    let opts = options_from(c, ctx);
    let allow = matches!(opts.input_sort_type, InputSortType::START);
    let pass = c["opts"]["pass"].as_i64().unwrap_or(1);
    let rt = runtime_from(c);
    // "src": "text" - the items go through a bedGraph / BED text file and the real line reader + parser ("eol": "crlf" for Windows
    // line ends, "final_nl": 0 for a last line that is not terminated)
    let text = c["src"].as_str().unwrap_or("iter") == "text";
    let tf = tempfile::NamedTempFile::new().unwrap();
    if text {
        use std::io::Write;
        let eol = if c["eol"].as_str().unwrap_or("lf") == "crlf" { "\r\n" } else { "\n" };
        let mut lines: Vec<String> = vec![];
        if kind == "bw" {
            for (n, v) in bw_items(c, ctx) { lines.push(format!("{}\t{}\t{}\t{}", n, v.start, v.end, v.value)); }
        } else {
            for (n, e) in bb_items(c, ctx) { lines.push(if e.rest.is_empty() { format!("{}\t{}\t{}", n, e.start, e.end) } else { format!("{}\t{}\t{}\t{}", n, e.start, e.end, e.rest) }); }
        }
        let mut body = lines.join(eol);
        if c["final_nl"].as_i64().unwrap_or(1) == 1 && !lines.is_empty() { body.push_str(eol); }
        let mut f = std::fs::File::create(tf.path()).unwrap();
        f.write_all(body.as_bytes()).unwrap();
    }
    if kind == "bw" && text {
        let mut w = BigWigWrite::new(sink, chrom_map(c, ctx));
        w.options = opts;
        return if pass == 2 {
            w.write_multipass(|| Ok(BedParserStreamingIterator::from_bedgraph_file(std::fs::File::open(tf.path())?, allow)), rt).map_err(|e| e.to_string())
        } else {
            w.write(BedParserStreamingIterator::from_bedgraph_file(std::fs::File::open(tf.path()).unwrap(), allow), rt).map_err(|e| e.to_string())
        };
    }
    if kind != "bw" && text {
        let mut w = BigBedWrite::new(sink, chrom_map(c, ctx));
        w.options = opts;
        if let Some(a) = c["autosql"].as_str() {
            w.autosql = Some(a.to_string());
        }
        return if pass == 2 {
            w.write_multipass(|| Ok(BedParserStreamingIterator::from_bed_file(std::fs::File::open(tf.path())?, allow)), rt).map_err(|e| e.to_string())
        } else {
            w.write(BedParserStreamingIterator::from_bed_file(std::fs::File::open(tf.path()).unwrap(), allow), rt).map_err(|e| e.to_string())
        };
    }
    if kind == "bw" {
        let items = bw_items(c, ctx);
        let mut w = BigWigWrite::new(sink, chrom_map(c, ctx));
        w.options = opts;
        if pass == 2 {
            w.write_multipass(|| Ok(BedParserStreamingIterator::wrap_infallible_iter(items.clone().into_iter(), allow)), rt).map_err(|e| e.to_string())
        } else {
            w.write(BedParserStreamingIterator::wrap_infallible_iter(items.into_iter(), allow), rt).map_err(|e| e.to_string())
        }
    } else {
        let items = bb_items(c, ctx);
        let mut w = BigBedWrite::new(sink, chrom_map(c, ctx));
        w.options = opts;
        if let Some(a) = c["autosql"].as_str() {
            w.autosql = Some(a.to_string());
        }
        if pass == 2 {
            w.write_multipass(|| Ok(BedParserStreamingIterator::wrap_infallible_iter(items.clone().into_iter(), allow)), rt).map_err(|e| e.to_string())
        } else {
            w.write(BedParserStreamingIterator::wrap_infallible_iter(items.into_iter(), allow), rt).map_err(|e| e.to_string())
        }
    }
}

fn digest(b: &[u8]) -> String {
    // FNV-1a 64 (only used to compare outputs of the same run; not a security hash)
    let mut h: u64 = 0xcbf29ce484222325;
    for x in b {
        h ^= *x as u64;
        h = h.wrapping_mul(0x100000001b3);
    }
    format!("{:016x}:{}", h, b.len())
}

/// the same bytes through the generic opener (`GenericBBIRead::open`): which file type it reports and its chromosome table
pub fn observe_generic(ctx: &mut Ctx, bytes: &[u8]) -> J {
    use bigtools::{BBIRead, GenericBBIRead};
    match GenericBBIRead::open(std::io::Cursor::new(bytes.to_vec())) {
        Ok(g) => {
            let kind = match &g { GenericBBIRead::BigWig(_) => "bw", GenericBBIRead::BigBed(_) => "bb" };
            let chroms: Vec<J> = g.chroms().iter().map(|c| json!([ctx.chrom_idx(&c.name), ctx.pos_out(c.length)])).collect();
            json!({"kind": kind, "chroms": chroms})
        }
        Err(_) => json!({"kind": "err", "chroms": []}),
    }
}

/// every range query of a file, in nested ascending order or (qorder = "shuffle") in a seeded permutation, so that a
/// reader with state between calls (caches, remembered positions) meets non-monotonic sequences too
pub fn query_plan(c: &J, chroms: &[(String, u32)], ctx: &mut Ctx, empty_ok: bool) -> Vec<(String, i64, i64)> {
    let mut plan = vec![];
    for (n, l) in chroms.iter() {
        let lm = ctx.pos_out(*l);
        for s in 0..=lm {
            let lo = if empty_ok { s } else { s + 1 };
            for e in lo..=lm {
                plan.push((n.clone(), s, e));
            }
        }
    }
    if c["qorder"].as_str().unwrap_or("asc") == "shuffle" {
        let mut x: u64 = 0x9E3779B97F4A7C15 ^ (plan.len() as u64);
        for i in (1..plan.len()).rev() {
            x ^= x << 13; x ^= x >> 7; x ^= x << 17;
            plan.swap(i, (x % (i as u64 + 1)) as usize);
        }
    }
    plan
}

pub fn observe_bw(c: &J, ctx: &mut Ctx, bytes: Vec<u8>) -> J {
    let d = digest(&bytes);
    let generic = observe_generic(ctx, &bytes);
    let r = match BigWigRead::open(std::io::Cursor::new(bytes)) {
        Ok(r) => r,
        Err(e) => return json!({"result": "openerr", "err": e.to_string()}),
    };
    let mut o = if c["cached"].as_i64().unwrap_or(0) == 1 { observe_bw_r(c, ctx, r.cached(), d) } else { observe_bw_r(c, ctx, r, d) };
    o["generic"] = generic;
    o
}

pub fn observe_bw_r<R: bigtools::BBIFileRead>(c: &J, ctx: &mut Ctx, mut r: BigWigRead<R>, d: String) -> J {
    let mut obs = json!({"result": "ok", "digest": d});
    let chroms: Vec<(String, u32)> = r.chroms().iter().map(|c| (c.name.clone(), c.length)).collect();
    obs["chroms"] = J::Array(chroms.iter().map(|(n, l)| json!([ctx.chrom_idx(n), ctx.pos_out(*l)])).collect());
    if c["qorder"].as_str().unwrap_or("asc") == "shuffle" {
        // the first thing this reader instance is asked is about the LAST chromosome (answer not used): whatever it
        // remembers from that must not hurt the earlier chromosomes
        if let Some((n, l)) = chroms.last() {
            if let Ok(it) = r.get_interval(n, 0, *l) { let _ = it.count(); }
        }
    }
    let mut read = vec![];
    for (n, l) in chroms.iter() {
        match r.get_interval(n, 0, *l) {
            Ok(it) => {
                for v in it {
                    match v {
                        Ok(v) => read.push(json!([ctx.chrom_idx(n), ctx.pos_out(v.start), ctx.pos_out(v.end), ctx.val_out(v.value)])),
                        Err(e) => return json!({"result": "readerr", "err": e.to_string()}),
                    }
                }
            }
            Err(e) => return json!({"result": "readerr", "err": e.to_string()}),
        }
    }
    obs["read"] = J::Array(read);
    match r.get_summary() {
        Ok(s) => {
            obs["count"] = json!(s.total_items);
            let before = ctx.nonint;
            ctx.nonint = false;
            obs["summary"] = json!({"bases": ctx.num_out(s.bases_covered as f64, 1), "min": ctx.num_out(s.min_val, 0), "max": ctx.num_out(s.max_val, 0),
                "sum": ctx.num_out(s.sum, 1), "sumsq": ctx.num_out(s.sum_squares, 1), "int": if ctx.nonint {0} else {1}});
            ctx.nonint = before;
        }
        Err(e) => return json!({"result": "readerr", "err": e.to_string()}),
    }
    // zoom levels
    let levels: Vec<u32> = r.info().zoom_headers.iter().map(|h| h.reduction_level).collect();
    let mut zooms = vec![];
    let mut zint = true;
    for res in levels.iter() {
        let mut recs = vec![];
        for (n, l) in chroms.iter() {
            match r.get_zoom_interval(n, 0, *l, *res) {
                Ok(it) => {
                    for z in it {
                        match z {
                            Ok(z) => {
                                let before = ctx.nonint;
                                ctx.nonint = false;
                                recs.push(json!([ctx.chrom_idx(n), ctx.pos_out(z.start), ctx.pos_out(z.end), ctx.num_out(z.summary.bases_covered as f64, 1),
                                    ctx.num_out(z.summary.min_val, 0), ctx.num_out(z.summary.max_val, 0), ctx.num_out(z.summary.sum, 1), ctx.num_out(z.summary.sum_squares, 1)]));
                                if ctx.nonint { zint = false; }
                                ctx.nonint = before;
                            }
                            Err(e) => return json!({"result": "readerr", "err": e.to_string()}),
                        }
                    }
                }
                Err(e) => return json!({"result": "readerr", "err": e.to_string()}),
            }
        }
        zooms.push(json!({"res": ctx.pos_out(*res), "recs": recs}));
    }
    obs["zooms"] = J::Array(zooms);
    obs["zint"] = json!(if zint {1} else {0});
    // range queries
    let mut qs = vec![];
    if c["allq"].as_i64().unwrap_or(0) == 1 {
        for (n, s, e) in query_plan(c, &chroms, ctx, true).iter().map(|q| (&q.0, q.1, q.2)) {
            {
                {
                    let (ss, ee) = (ctx.pos_in(s), ctx.pos_in(e));
                    let mut iv = vec![];
                    match r.get_interval(n, ss, ee) {
                        Ok(it) => for v in it { match v { Ok(v) => iv.push(json!([ctx.pos_out(v.start), ctx.pos_out(v.end), ctx.val_out(v.value)])), Err(e) => return json!({"result": "readerr", "err": e.to_string()}) } },
                        Err(e) => return json!({"result": "readerr", "err": e.to_string()}),
                    }
                    let vals: Vec<i64> = if ctx.scale == 1 { match r.values(n, ss, ee) { Ok(v) => v.into_iter().map(|x| ctx.val_out(x)).collect(), Err(e) => return json!({"result": "readerr", "err": e.to_string()}) } } else { vec![] };
                    qs.push(json!({"c": ctx.chrom_idx(n), "s": s, "e": e, "iv": iv, "vals": vals}));
                }
            }
        }
    }
    obs["queries"] = J::Array(qs);
    // zoom range queries: indices (1-based) into the full record list of the chromosome
    let mut zqs = vec![];
    if c["zq"].as_i64().unwrap_or(0) == 1 {
        for res in levels.iter() {
            for (n, l) in chroms.iter() {
                let lm = ctx.pos_out(*l);
                for s in 0..=lm {
                    for e in (s + 1)..=lm {
                        let mut recs = vec![];
                        match r.get_zoom_interval(n, ctx.pos_in(s), ctx.pos_in(e), *res) {
                            Ok(it) => for z in it { match z { Ok(z) => recs.push(json!([ctx.pos_out(z.start), ctx.pos_out(z.end)])), Err(e) => return json!({"result": "readerr", "err": e.to_string()}) } },
                            Err(e) => return json!({"result": "readerr", "err": e.to_string()}),
                        }
                        zqs.push(json!({"c": ctx.chrom_idx(n), "s": s, "e": e, "res": ctx.pos_out(*res), "recs": recs}));
                    }
                }
            }
        }
    }
    obs["zqueries"] = J::Array(zqs);
    obs["unmapped"] = json!(if ctx.unmapped {1} else {0});
    obs["nonint"] = json!(if ctx.nonint {1} else {0});
    obs
}

pub fn observe_bb(c: &J, ctx: &mut Ctx, bytes: Vec<u8>) -> J {
    let d = digest(&bytes);
    let generic = observe_generic(ctx, &bytes);
    let r = match BigBedRead::open(std::io::Cursor::new(bytes)) {
        Ok(r) => r,
        Err(e) => return json!({"result": "openerr", "err": e.to_string()}),
    };
    let mut o = if c["cached"].as_i64().unwrap_or(0) == 1 { observe_bb_r(c, ctx, r.cached(), d) } else { observe_bb_r(c, ctx, r, d) };
    o["generic"] = generic;
    o
}

pub fn observe_bb_r<R: bigtools::BBIFileRead>(c: &J, ctx: &mut Ctx, mut r: BigBedRead<R>, d: String) -> J {
    let mut obs = json!({"result": "ok", "digest": d});
    let n_items = c["items"].as_array().map(|a| a.len()).unwrap_or(0);
    let rests: HashMap<String, i64> = (1..=n_items).map(|i| (rest_for(c, i), i as i64)).collect();
    let uniq = rests.len() == n_items;
    let chroms: Vec<(String, u32)> = r.chroms().iter().map(|c| (c.name.clone(), c.length)).collect();
    obs["chroms"] = J::Array(chroms.iter().map(|(n, l)| json!([ctx.chrom_idx(n), ctx.pos_out(*l)])).collect());
    let id_of = |rest: &str| -> i64 { if uniq { *rests.get(rest).unwrap_or(&0) } else if rests.contains_key(rest) { -1 } else { 0 } };
    if c["qorder"].as_str().unwrap_or("asc") == "shuffle" {
        // the first thing this reader instance is asked is about the LAST chromosome (answer not used)
        if let Some((n, _)) = chroms.last() {
            if let Ok(it) = r.get_interval(n, 0, u32::MAX) { let _ = it.count(); }
        }
    }
    let mut read = vec![];
    let mut readok = 1;
    'outer: for (n, _l) in chroms.iter() {
        // full span: [0, u32::MAX) so that entries reaching past the chromosome end are included
        match r.get_interval(n, 0, u32::MAX) {
            Ok(it) => {
                for v in it {
                    match v {
                        Ok(v) => read.push(json!([ctx.chrom_idx(n), ctx.pos_out(v.start), ctx.pos_out(v.end), id_of(&v.rest)])),
                        Err(e) => { readok = 0; obs["readerr"] = json!(e.to_string()); break 'outer; }
                    }
                }
            }
            Err(e) => { readok = 0; obs["readerr"] = json!(e.to_string()); break 'outer; }
        }
    }
    obs["readok"] = json!(readok);
    obs["read"] = J::Array(read);
    match r.item_count() { Ok(n) => obs["count"] = json!(n), Err(e) => return json!({"result": "readerr", "err": e.to_string()}) }
    match r.autosql() {
        Ok(a) => {
            let got = a.unwrap_or_else(|| "<none>".to_string());
            let norm = |t: &str| t.split_whitespace().collect::<Vec<_>>().join(" ");
            obs["autosql"] = match c["autosql"].as_str() {
                Some(sup) => json!(if got == sup { "same" } else { "differs" }),
                None => {
                    // "the three-field BED schema": chrom, chromStart, chromEnd and nothing else
                    let n = norm(&got);
                    let fields: Vec<&str> = n.split(';').collect();
                    let ok = fields.len() == 4 && fields[0].ends_with("string chrom") && fields[1].contains("uint chromStart") && fields[2].contains("uint chromEnd");
                    json!(if ok { "bed3" } else { "not-bed3" })
                }
            };
        }
        Err(e) => return json!({"result": "readerr", "err": e.to_string()}),
    }
    obs["fieldCount"] = json!(r.info().header.field_count);
    obs["definedFieldCount"] = json!(r.info().header.defined_field_count);
    match r.get_summary() {
        Ok(s) => {
            let before = ctx.nonint;
            ctx.nonint = false;
            obs["summary"] = json!({"bases": ctx.num_out(s.bases_covered as f64, 1), "min": ctx.num_out(s.min_val, 0), "max": ctx.num_out(s.max_val, 0),
                "sum": ctx.num_out(s.sum, 1), "sumsq": ctx.num_out(s.sum_squares, 1), "int": if ctx.nonint {0} else {1}});
            ctx.nonint = before;
        }
        Err(e) => return json!({"result": "readerr", "err": e.to_string()}),
    }
    let levels: Vec<u32> = r.info().zoom_headers.iter().map(|h| h.reduction_level).collect();
    let mut zooms = vec![];
    let mut zint = true;
    for res in levels.iter() {
        let mut recs = vec![];
        for (n, _l) in chroms.iter() {
            match r.get_zoom_interval(n, 0, u32::MAX, *res) {
                Ok(it) => {
                    for z in it {
                        match z {
                            Ok(z) => {
                                let before = ctx.nonint;
                                ctx.nonint = false;
                                recs.push(json!([ctx.chrom_idx(n), ctx.pos_out(z.start), ctx.pos_out(z.end), ctx.num_out(z.summary.bases_covered as f64, 1),
                                    ctx.num_out(z.summary.min_val, 0), ctx.num_out(z.summary.max_val, 0), ctx.num_out(z.summary.sum, 1), ctx.num_out(z.summary.sum_squares, 1)]));
                                if ctx.nonint { zint = false; }
                                ctx.nonint = before;
                            }
                            Err(e) => return json!({"result": "readerr", "err": e.to_string()}),
                        }
                    }
                }
                Err(e) => return json!({"result": "readerr", "err": e.to_string()}),
            }
        }
        zooms.push(json!({"res": ctx.pos_out(*res), "recs": recs}));
    }
    obs["zooms"] = J::Array(zooms);
    obs["zint"] = json!(if zint {1} else {0});
    let mut qs = vec![];
    if c["allq"].as_i64().unwrap_or(0) == 1 {
        for (n, s, e) in query_plan(c, &chroms, ctx, false).iter().map(|q| (&q.0, q.1, q.2)) {
            {
                {
                    let mut ids = vec![];
                    let mut qerr = 0;
                    match r.get_interval(n, ctx.pos_in(s), ctx.pos_in(e)) {
                        Ok(it) => for v in it { match v { Ok(v) => ids.push(json!([ctx.pos_out(v.start), ctx.pos_out(v.end), id_of(&v.rest)])), Err(_) => { qerr = 1; break; } } },
                        Err(_) => { qerr = 1; }
                    }
                    qs.push(json!({"c": ctx.chrom_idx(n), "s": s, "e": e, "iv": ids, "err": qerr}));
                }
            }
        }
    }
    obs["queries"] = J::Array(qs);
    let mut zqs = vec![];
    if c["zq"].as_i64().unwrap_or(0) == 1 {
        for res in levels.iter() {
            for (n, l) in chroms.iter() {
                let lm = ctx.pos_out(*l);
                for s in 0..lm {
                    for e in (s + 1)..=lm {
                        let mut recs = vec![];
                        match r.get_zoom_interval(n, ctx.pos_in(s), ctx.pos_in(e), *res) {
                            Ok(it) => for z in it { match z { Ok(z) => recs.push(json!([ctx.pos_out(z.start), ctx.pos_out(z.end)])), Err(e) => return json!({"result": "readerr", "err": e.to_string()}) } },
                            Err(e) => return json!({"result": "readerr", "err": e.to_string()}),
                        }
                        zqs.push(json!({"c": ctx.chrom_idx(n), "s": s, "e": e, "res": ctx.pos_out(*res), "recs": recs}));
                    }
                }
            }
        }
    }
    obs["zqueries"] = J::Array(zqs);
    obs["unmapped"] = json!(if ctx.unmapped {1} else {0});
    obs["nonint"] = json!(if ctx.nonint {1} else {0});
    obs
}

/// vh readfile: observe a file somebody else wrote (C10)
pub fn run_readfile(c: &J) -> J {
    let mut ctx = Ctx::from(c);
    let bytes = match std::fs::read(c["path"].as_str().unwrap()) { Ok(b) => b, Err(e) => return json!({"result": "ioerr", "err": e.to_string()}) };
    if c["kind"].as_str().unwrap() == "bw" { observe_bw(c, &mut ctx, bytes) } else { observe_bb(c, &mut ctx, bytes) }
}

/// vh bbi: write + observe
pub fn run_case(c: &J) -> J {
    let mut ctx = Ctx::from(c);
    let sink = SharedSink::default();
    match write_file(c, &ctx, sink.clone()) {
        Err(e) => json!({"result": "err", "err": e}),
        Ok(()) => {
            let bytes = sink.contents();
            if let Some(path) = c["dump"].as_str() {
                std::fs::write(path, &bytes).expect("dump");
            }
            if c["kind"].as_str().unwrap() == "bw" { observe_bw(c, &mut ctx, bytes) } else { observe_bb(c, &mut ctx, bytes) }
        }
    }
}
