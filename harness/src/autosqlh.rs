//! C19: the autoSql parser on arbitrary texts; the generated BED schema; stored schema and field count.
use crate::sinks::SharedSink;
use bigtools::bed::autosql::bed_autosql;
use bigtools::bed::autosql::parse::parse_autosql;
use bigtools::beddata::BedParserStreamingIterator;
use bigtools::{BedEntry, BigBedRead, BigBedWrite};
use serde_json::{json, Value as J};
use std::collections::HashMap;

fn parse(text: &str) -> J {
    match parse_autosql(text) {
        Ok(d) => json!({"result": "accept", "counts": d.iter().map(|x| x.fields.len()).collect::<Vec<_>>()}),
        Err(_) => json!({"result": "reject", "counts": []}),
    }
}

/// number of field terminators outside quoted comments (plumbing: an independent count of declared fields)
fn semis(text: &str) -> usize {
    let mut q = false;
    let mut n = 0;
    for c in text.chars() {
        if c == '"' { q = !q; } else if c == ';' && !q { n += 1; }
    }
    n
}

fn write_with(autosql: Option<String>, rest: &str) -> Result<(String, u16, u16), String> {
    let sink = SharedSink::default();
    let mut sizes = HashMap::new();
    sizes.insert("chrAa".to_string(), 100u32);
    let mut w = BigBedWrite::new(sink.clone(), sizes);
    w.autosql = autosql;
    w.options.inmemory = true;
    let items = vec![("chrAa".to_string(), BedEntry { start: 1, end: 5, rest: rest.to_string() })];
    let rt = tokio::runtime::Builder::new_current_thread().build().unwrap();
    w.write(BedParserStreamingIterator::wrap_infallible_iter(items.into_iter(), false), rt).map_err(|e| e.to_string())?;
    let mut r = BigBedRead::open(sink.reader()).map_err(|e| e.to_string())?;
    let a = r.autosql().map_err(|e| e.to_string())?.unwrap_or_default();
    Ok((a, r.info().header.field_count, r.info().header.defined_field_count))
}

pub fn run_case(c: &J) -> J {
    match c["kind"].as_str().unwrap() {
        "bed" => {
            let n = c["n"].as_u64().unwrap() as usize;
            let rest = (0..n).map(|i| format!("c{}", i)).collect::<Vec<_>>().join("\t");
            let schema = bed_autosql(&rest);
            let ans = parse(&schema);
            match write_with(Some(schema.clone()), &rest) {
                Ok((stored, fc, _)) => json!({"result": "ok", "ans": ans, "storedFields": semis(&stored), "verbatim": if stored == schema {1} else {0}, "headerCount": fc}),
                Err(e) => json!({"result": "writeerr", "err": e, "ans": ans, "storedFields": 0, "verbatim": 0, "headerCount": 0}),
            }
        }
        "valid" => {
            let text = c["text"].as_str().unwrap();
            let ans = parse(text);
            match write_with(Some(text.to_string()), "x") {
                Ok((stored, fc, _)) => json!({"result": "ok", "ans": ans, "storedFields": semis(&stored), "verbatim": if stored == text {1} else {0}, "headerCount": fc}),
                Err(e) => json!({"result": "writeerr", "err": e, "ans": ans, "storedFields": 0, "verbatim": 0, "headerCount": 0}),
            }
        }
        _ => {
            let text = c["text"].as_str().unwrap();
            json!({"result": "ok", "ans": parse(text), "storedFields": 0, "verbatim": 1, "headerCount": 0})
        }
    }
}
