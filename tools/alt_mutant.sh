#!/bin/bash
# alt_mutant.sh <seeded-id> <check-id>...  evaluate a seeded change in a scratch worktree (/tmp/mrepo), never touching /repo
id=$1; shift
exec 8>/verif/work/alt.lock
flock 8
wt=/tmp/mrepo
if [ ! -d $wt ]; then git -C /repo worktree add -q --detach $wt HEAD; fi
cd $wt && git checkout -q -- . && git checkout -q --detach $(git -C /repo rev-parse HEAD) || exit 2
# (patch_rebased.diff: the same change re-expressed on the current tree when later hook / fix commits moved its context)
git apply /verif/seeded/$id/patch.diff 2>/dev/null || git apply /verif/seeded/$id/patch_rebased.diff || { echo "MUTANT $id: patch does not apply to current HEAD"; exit 2; }
cd /verif
for c in "$@"; do
  out=$(VERIF_ALT_REPO=$wt VERIF_TIER=${TIER:-quick} timeout ${TMO:-1800} bin/check $c 2>&1); rc=$?
  echo "MUTANT $id check $c exit=$rc  $(echo "$out" | grep -c '^VIOLATION') violation lines; $(echo "$out" | grep -E 'failing observations|TOOL-ERROR' | head -2)"
  echo "$out" | grep -A1 '^VIOLATION' | head -4
done
cd $wt && git checkout -q -- .
