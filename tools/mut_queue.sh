#!/bin/bash
# mut_queue.sh "<wt> <seeded-id> <checks...>" ...   serialised (flock) confirm + alt evaluation
exec 9>/verif/work/mutq.lock
flock 9
for job in "$@"; do
  set -- $job
  wt=$1; id=$2; shift 2
  /verif/tools/confirm_mutant.sh $wt $id 2>&1 | tail -1
  if [ -d /verif/seeded/$id ]; then /verif/tools/alt_mutant.sh $id "$@"; fi
done
