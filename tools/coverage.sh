#!/bin/bash
# Source-line coverage of /repo/bigtools reached by the quick tier of all checks (and the extras).
# The harness + real CLI main are built with -C instrument-coverage into work/cov_target (VERIF_COV=1);
# llvm-profdata / llvm-cov come from the nightly toolchain.  Output: work/coverage_report.txt (+ per-line work/coverage_lines.txt)
cd /verif
N=$(ls -d ~/.rustup/toolchains/nightly-x86_64-unknown-linux-gnu/lib/rustlib/x86_64-unknown-linux-gnu/bin)
rm -rf work/cov_prof; mkdir -p work/cov_prof
for c in ${@:-C01 C02 C03 C04 C05 C06 C07 C08 C09 C10 C11 C12 C13 C14 C15 C16 C17 C18 C19 X02}; do
  VERIF_COV=1 VERIF_EVIDENCE_DIR=work/cov_evidence timeout 3000 bin/check $c 2>&1 | grep -E "^\[[CX][0-9]+\] (OK|[0-9]+ viol)|TOOL-ERROR" | tail -1
done
$N/llvm-profdata merge -sparse work/cov_prof/*.profraw -o work/cov.profdata
$N/llvm-cov report work/cov_target/debug/vh -object work/cov_target/debug/bigtools -instr-profile=work/cov.profdata --ignore-filename-regex='(registry|rustc|/verif/harness)' > work/coverage_report.txt 2>&1
$N/llvm-cov show work/cov_target/debug/vh -object work/cov_target/debug/bigtools -instr-profile=work/cov.profdata --ignore-filename-regex='(registry|rustc|/verif/harness)' --show-line-counts-or-regions > work/coverage_lines.txt 2>&1
tail -40 work/coverage_report.txt | cut -c1-60,100-150
