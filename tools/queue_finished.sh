#!/bin/bash
# queue every finished (MUTANT/patch.diff present) but not yet evaluated sub-agent worktree
cd /verif
jobs=()
for d in /tmp/mut_*; do
  [ -f $d/MUTANT/patch.diff ] && [ -f $d/MUTANT/meta.json ] || continue
  [ -f $d/MUTANT/DONE ] || continue     # touched by hand when the sub-agent has reported completion
  tag=$(basename $d | sed 's/mut_//')          # C05b
  prop=${tag:0:3}
  round=${tag:3}
  id=${prop}_m$([ -z "$round" ] && echo 1 || ([ "$round" = c ] && echo 3 || ([ "$round" = d ] && echo 4 || ([ "$round" = e ] && echo 5 || ([ "$round" = f ] && echo 6 || ([ "$round" = g ] && echo 7 || echo 2))))))
  [ -d seeded/$id ] && continue
  grep -q " $id " work/mutq_started.txt 2>/dev/null && continue
  echo " $id " >> work/mutq_started.txt
  jobs+=("$d $id $prop")
done
[ ${#jobs[@]} -gt 0 ] && (tools/mut_queue.sh "${jobs[@]}" >> work/mut_batch_auto.log 2>&1 &)
echo "queued: ${jobs[@]}"
