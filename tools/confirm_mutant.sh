#!/bin/bash
# confirm_mutant.sh <worktree> <ID>  — re-confirm a seeded change independently of the agent that wrote it:
#   with the patch: builds, existing suite passes, demo FAILS;  without: demo PASSES.
# On success copies MUTANT/ to /verif/seeded/<ID>/ with a confirmation record.
wt=$1; id=$2
cd $wt || exit 2
export CARGO_TARGET_DIR=$wt/target CARGO_NET_OFFLINE=true
git checkout -q -- . 
git checkout -q --detach $(git -C /repo rev-parse HEAD)
mkdir -p MUTANT/tmp_demo_tests; mv bigtools/tests/demo_*.rs MUTANT/tmp_demo_tests/ 2>/dev/null
git apply --check MUTANT/patch.diff || { echo "patch does not apply"; exit 1; }
git apply MUTANT/patch.diff
suite=$(cargo test --workspace --no-fail-fast --offline -j 6 2>&1 | grep -E '^test result' )
suite_fail=$(echo "$suite" | grep -c 'FAILED')
mv MUTANT/tmp_demo_tests/*.rs bigtools/tests/ 2>/dev/null
bash MUTANT/demo/run.sh > MUTANT/demo_with.log 2>&1; with=$?
git checkout -q -- .
bash MUTANT/demo/run.sh > MUTANT/demo_without.log 2>&1; without=$?
echo "suite_fail_lines=$suite_fail demo_with_exit=$with demo_without_exit=$without"
if [ "$suite_fail" = "0" ] && [ "$with" != "0" ] && [ "$without" = "0" ]; then
  mkdir -p /verif/seeded/$id
  cp MUTANT/patch.diff MUTANT/meta.json /verif/seeded/$id/
  cp -r MUTANT/demo /verif/seeded/$id/
  python3 - <<PY
import json
p='/verif/seeded/$id/meta.json'
m=json.load(open(p))
m['confirmed_by_main']={'suite_passes_with_change':True,'demo_fails_with_change':True,'demo_passes_without':True,
  'ran':'git apply patch.diff; cargo test --workspace --no-fail-fast --offline; demo/run.sh (exit $with); git checkout; demo/run.sh (exit $without)'}
json.dump(m,open(p,'w'),indent=1)
PY
  echo CONFIRMED $id
else
  echo NOT-CONFIRMED $id; echo "$suite"
fi
# disk: a confirmed (or rejected) worktree does not need its build output any more
rm -rf $wt/target
