#!/bin/bash
# re-evaluate every seeded change against the CURRENT checks (alt universe, /repo untouched): one summary line each
cd /verif
: > work/regress.log
for d in seeded/C*_m*; do
  id=$(basename $d); prop=${id:0:3}
  chk=$prop
  [ "$id" = "C02_m3" ] && chk=C11
  nice tools/alt_mutant.sh $id $chk 2>&1 | grep -E "^MUTANT" >> work/regress.log
done
echo DONE >> work/regress.log
