#!/usr/bin/env python3
"""Print the prompt given to an independent sub-agent that seeds a property-breaking change.
Only the property text and the scratch worktree path are given (nothing from /verif)."""
import json, sys
pid, wt = sys.argv[1][:3], sys.argv[2]
round2 = len(sys.argv[1]) > 3
extra = sys.argv[3] if len(sys.argv) > 3 else ""
if sys.argv[1][3:] == "f":
    extra += "\nThis is a SIXTH-ROUND request. Five earlier rounds covered loop bounds, index node bounds, early exits, stale buffers and caches, zero-length items, integer widths, initial values of extrema, channel sizing, shared file positions, character-vs-byte counting, option ordering, header fields taken from the last chromosome only, chromosome lookup order, files not truncated, rarely used options, name shapes, special float values, CRLF, very long lines, counts crossing 256, zoom-then-data query order. Choose something ELSE. Ideas: (1) a FORMAT-LEVEL field or layout rule that bigtools' own reader does not consult but other readers (UCSC kent tools, pyBigWig) do - header counts and offsets, reserved fields, version, field counts, total-summary location, R-tree header fields, zoom header fields, padding, ordering of file regions; (2) reading files produced by OTHER tools - big-endian files, other section types, unusual but legal block sizes, items_per_slot different from what bigtools writes, zoom levels bigtools would not create; (3) the boundary between COMMAND-LINE handling and the library - defaults, combinations of flags, how chrom.sizes or BED text is tokenised (extra columns, comments, blank lines, spaces vs tabs, missing trailing newline), clipping of out-of-range input; (4) ERROR and END-OF-INPUT paths relevant to this property - what is reported, what is left behind, whether a later call on the same object still behaves; (5) state shared between two consecutive uses of one object or one process (second write with the same options object, second query after an error).\n"
elif sys.argv[1][3:] == "e":
    extra += "\nThis is a FIFTH-ROUND request. Four earlier rounds covered loop bounds, index node bounds, early exits, stale buffers and caches, zero-length items, integer widths, initial values of extrema, channel sizing, shared file positions, character-vs-byte counting, option ordering, header fields taken from the last chromosome only, chromosome lookup by name order, files not truncated, and rarely used options. Choose something ELSE. Ideas: behaviour that depends on the SHAPE OF NAMES OR TEXT (chromosome names of different lengths or sharing prefixes, tabs vs spaces, trailing white space, Windows line endings, very long lines), on SPECIAL VALUES (NaN, infinities, -0.0, values that do not survive f32, scores at integer limits), on COUNTS CROSSING A BOUNDARY (more than 255 / 256 / 65535 of something, block_size or items_per_slot at 1 or very large), or on the ORDER OF OPERATIONS on one object (same reader used for data then zoom then data again, writer options set in an unusual combination).\n"
elif sys.argv[1][3:] == "d":
    extra += "\nThis is a FOURTH-ROUND request. Earlier rounds already tried: off-by-one errors in the main loops, wrong bounds of index nodes, early exits in the index search, stale buffers, skipped work for zero-length items, integer-width comparisons, wrong initial values of running minima / maxima, channel sizing, reopened file handles sharing a position, character-vs-byte counting, and options matched by position instead of by key. Choose something ELSE, preferably in code that ordinary command-line use rarely reaches: a public library function or option that the bundled tools do not use by default (e.g. reading through the generic open functions, zoom-interval reads, values() arrays, writer options such as max_zooms / initial_zoom_size / input sort type / channel size / in-memory mode), the handling of the last / first element of a sequence, the interaction between two chromosomes, or the end-of-file / end-of-chromosome bookkeeping.\n"
elif sys.argv[1][3:] == "c":
    extra += "\nThis is a THIRD-ROUND request. Earlier rounds already tried: off-by-one errors in the main write/read loops, wrong bounds of R-tree index nodes, early-exit 'optimisations' of the index search, buffers reused without clearing, and skipping work for zero-length items. Choose a DIFFERENT kind of change in a DIFFERENT function: e.g. an error or end-of-input path, byte-order or integer-width handling, a header / offset / count field, interaction of two options, state carried between calls or between chromosomes, a concurrency hand-off, or a default value.\n"
elif len(sys.argv[1]) > 3:
    extra += "\nThis is a SECOND-ROUND request: an obvious off-by-one in the main loop has already been tried. Prefer a change that is subtle: e.g. only wrong for a rare combination of options or data shape, an error path, a caching/state-carrying effect between calls, a concurrency window, an integer-width or boundary-value issue, or two edits in different functions that are each harmless alone.\n"
p = next(json.loads(l) for l in open('/verif/properties.jsonl') if json.loads(l)['id'] == pid)
print(f"""You are helping to evaluate a verification framework for the Rust project jackh726/bigtools (a library and CLI tools for reading/writing UCSC bigWig/bigBed files). You work ONLY inside the scratch git worktree at {wt} (a checkout of the project; never touch /repo or /verif, and do not read anything under /verif). The sandbox is offline: use `cargo ... --offline`; build output must stay inside the worktree (e.g. `CARGO_TARGET_DIR={wt}/target`). Keep CPU use modest (`-j 4`).

Here is a semantic property of the project that should hold:

  id: {p['id']}
  title: {p['title']}
  statement: {p['statement']}
  quantified over: {p['quantifier']['text']}
  relevant files: {', '.join(p['anchors']['files'])}

TASK: produce ONE realistic change to the project's source (a plausible bug a maintainer could introduce in a refactor or "optimisation": e.g. an off-by-one at a boundary, a wrong comparison, a dropped step, a reordered pair of operations, a stale cache key, an unchecked error, two cooperating sites that each look fine alone) that BREAKS this property, while:
  1. the project still compiles, and
  2. the existing test-suite still passes: `cd {wt} && CARGO_TARGET_DIR={wt}/target cargo test --workspace --no-fail-fast --offline -j 4` (39 tests), and
  3. the bug needs something SPECIFIC to manifest - a particular interleaving, a crash or fault at a particular point, a multi-step sequence of operations, an unusual input or option value, or a particular shape of data - i.e. it is NOT exposed at once by ordinary use with ordinary inputs.
{extra}
Also write a demonstration: a small Rust integration test file `{wt}/bigtools/tests/demo_{pid.lower()}.rs` (or, for pybigtools internals, a unit test; or a small shell script driving the built CLI binaries) that PASSES on the unmodified code and FAILS with your change. The demonstration must test the property as stated (not an implementation detail). Note: the unmodified project itself has some pre-existing bugs; if your demonstration fails on the unmodified code, pick a different scenario that passes there.

Deliverables, all inside {wt}:
  - `{wt}/MUTANT/patch.diff`: `git diff` of your source change ONLY (not the demo), applicable with `git apply` at the repo root;
  - `{wt}/MUTANT/demo/` : the demonstration file(s) and a `run.sh` that runs it (exit 0 = pass);
  - `{wt}/MUTANT/meta.json`: {{"property": "{pid}", "summary": "...what the change does...", "needs": "...what is needed for it to manifest...", "files": [...], "verified": {{"compiles": true, "suite_passes_with_change": true, "demo_passes_without": true, "demo_fails_with": true}}}} - fill the booleans only with what you actually ran and observed.
Leave the worktree with the source change REVERTED (git checkout of the source files) but MUTANT/ in place. Do not commit. When done, reply with a 5-line summary (what the change is, what it needs to manifest, and the verification results you observed)."""
)
