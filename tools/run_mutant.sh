#!/bin/bash
# run_mutant.sh <seeded-id> <check-id>...   apply a seeded change to /repo, run checks, undo it straight afterwards
id=$1; shift
cd /repo && git status --short | grep -v '^??' | grep . && { echo "/repo not clean"; exit 2; }
git -C /repo apply /verif/seeded/$id/patch.diff || { echo "patch does not apply"; exit 2; }
trap 'git -C /repo checkout -- .' EXIT
cd /verif
for c in "$@"; do
  out=$(VERIF_TIER=${TIER:-quick} timeout ${TMO:-1500} bin/check $c 2>&1); rc=$?
  echo "MUTANT $id check $c exit=$rc  $(echo "$out" | grep -c '^VIOLATION') violation lines; $(echo "$out" | grep -E 'failing observations|TOOL-ERROR' | head -2)"
  echo "$out" | grep -A1 '^VIOLATION' | head -4
done
