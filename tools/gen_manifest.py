#!/usr/bin/env python3
"""Regenerate MANIFEST.json from the table below (claimed checks) and properties.jsonl."""
import json, subprocess
props = [json.loads(l) for l in open('/verif/properties.jsonl')]
CLAIMED = {
 "C01": ("exhaustive small-scope enumeration of layouts by TLC (MC_BigWig: mechanism => abstract), every layout replayed on the real writer+reader, each observation judged by TLC with BigWigSpec!RoundTripOK", "TLC model checking + spec->impl replay + TLC observation validation", "4 C01"),
 "C02": ("TLC enumerates every start-sorted layout (MC_BigBed); replay on the real BigBedWrite/BigBedRead; TLC judges BigBedSpec!RoundTripOK, item count, autoSql, chromosome table", "TLC model checking + replay + TLC observation validation", "4 C02"),
 "C04": ("all layouts x ALL ranges: every query answer of the real reader judged by TLC with Required [= result [= Allowed (BigBedSpec!EntryQueryOK)", "TLC model checking + replay + TLC observation validation", "4 C04"),
 "C06": ("all C01/C02 layouts: summary and counts read back from the real files judged by TLC against the per-base statistics (BigWigSpec!SummaryOKW, BigBedSpec!SummaryOKB)", "TLC model checking + replay + TLC observation validation", "4 C06"),
 "C07": ("TLC checks the zoom tiling mechanism against ZoomFaithful on all layouts, replays them (also under affine embeddings) and judges the real zoom records and zoom queries with the same predicate", "TLC model checking + replay + TLC observation validation", "4 C07"),
 "C08": ("as C07 for coverage depth (BigBedSpec!ZoomsOKB)", "TLC model checking + replay + TLC observation validation", "4 C08"),
 "C03": ("all layouts x ALL ranges judged by IntervalOK/ValuesOK; Reader.tla (cache maps with capacity reset, lazily cached index offset, reopen) model-checked for HistoryIndependent over every bounded history, each history replayed on one real reader instance and every answer judged by TLC", "TLC model checking of histories + replay + TLC observation validation", "4 C03"),
 "C05": ("RTree.tla: construction, byte layout and DFS search checked exhaustively for n <= N blocks and fan-out b <= B (pointer exactness, containment, Search = LinearScan); every shape written by the real writer, main and zoom index decoded by the independent codec and the decoded image validated by TLC; all range queries through the real index judged by TLC", "TLC model checking + replay + TLC validation of decoded images", "4 C05"),
 "C14": ("SinkOrder.tla (region order, crash after every operation, PrefixSafe; a header-first design is rejected); the real write/seek/flush log is trace-validated by TLC at byte granularity with PrefixSafe after every operation; every crash prefix is reopened with the real readers and every operation is failed in turn, both judged by TLC", "TLC model checking + TLC trace validation of recorded sink operations + crash-prefix / fault enumeration judged by TLC", "4 C14"),
 "C15": ("Merge.tla: the windowed merge mechanism is checked against MergeOK (per-base sum) exhaustively and by random walks; every input is replayed through merge_sections_many under a window embedding, merge_into on all overlapping pairs, fill / fill_start_to_end on all small streams; the real bigwigmerge is run over data sets x clip/adjust/threshold x output naming; all outputs judged by TLC", "TLC model checking/simulation + replay + real binary + TLC observation validation", "4 C15"),
 "C16": ("Cli.tla: configuration space and path-selection table of the converters; MC_Cli draws configurations (threads, parallel, passes, buffering, compression, block size, zooms, native/UCSC flags, own-name/multicall/mixed-case invocation, restricted output); the real CLI main is run there and back; TLC judges the parsed records with the round-trip / range-query predicates", "TLC simulation of the configuration space + real binaries + TLC observation validation", "4 C16"),
 "C17": ("Stats.tla (per-region size/covered/sum/mean0/mean/min/max as exact integers and cross-multiplied quotients, name modes, per-base values); MC_Stats enumerates data set x region lists x name mode x --min-max x -t; the real bigwigaverageoverbed (also byte-compared with -t 1), bigwigvaluesoverbed and the library function are run; TLC judges every row", "TLC enumeration + real binaries/library + TLC observation validation", "4 C17"),
 "C19": ("AutoSql.tla: token-level grammar, generator of well-formed schemas, field-count rule; MC_AutoSql enumerates all single declarations over 12 field forms, multi-declaration schemas, every truncation / single-token mutation of a base set, every short token string, and 0..40 extra BED columns; the real parser runs on each (watchdog + address-space limit), the writer and bedtobigbed/bigbedinfo store and report the schema; TLC judges totality, acceptance with the declared fields, verbatim storage and header field counts", "TLC enumeration + replay (parser, writer, binaries) + TLC observation validation", "4 C19"),
 "C18": ("Slicing.tla: bisection indexer, FileView (clamping cursor) and chunker; TLC checks mechanism => IndexExact / ChunksOK on every small grouped file and enumerates every bounded read/seek sequence; each file / sequence is executed on the real index_chroms, FileView and split_file_into_chunks_by_size and judged by TLC", "TLC model checking + replay + TLC observation validation", "4 C18"),
 "C09": ("files written by the real writers from TLC-generated layouts are decoded by an independent codec; TLC evaluates BBIFormat!WellFormed (header/offset/count consistency, chromosome tree, every R-tree incl. containment and Search = LinearScan, block rules) and that the decoded records, summary and zoom records are those of the input", "TLC enumeration/simulation + independent decode + TLC validation of the decoded image", "4 C09"),
 "C10": ("MC_AnyWriter.tla draws well-formed layouts over the cross product of byte order, compression, section types, chromosome-tree and R-tree shapes/placements, versions, summary, zoom; an independent encoder writes them (guarded by TLC: WellFormed(decode(bytes)) and Records = data set); the real plain and caching readers are queried exhaustively and every answer is judged by TLC", "TLC simulation of a nondeterministic writer + independent encode + replay on the readers + TLC observation validation", "4 C10"),
 "C11": ("Pipeline.tla: every interleaving of source, encode tasks, write_data and the file owner over per-chromosome TempFileBuffers satisfies Deterministic (destination = sections in order), NoStuck and Terminates; the real writers are run per (input, format options) under many configurations with seeded and role-biased delays at the hook points (all switch/write/drop interleaving classes must be reached), the multi-threaded converters against -t 1; TLC judges that all output digests agree", "TLC model checking of the pipeline + delay-injected differential runs judged by TLC", "4 C11"),
 "C12": ("TLC explores every interleaving of TempFileBuffer.tla (safety + liveness under weak fairness), emits every schedule, the real buffer is driven through each and the recorded events are trace-validated by TLC; threaded runs are validated with a linearisation trace spec", "TLC model checking + schedule replay + TLC trace validation (incl. linearisation)", "4 C12"),
 "C13": ("TLC enumerates every small stream (valid, degenerate, invalid); the real writers consume each through iterator/file/parallel sources; TLC judges the outcome with Refusal!RefusalOK", "TLC enumeration + replay + TLC observation validation", "4 C13"),
}
import os
for pid in list(CLAIMED):
    if not os.path.exists('/verif/checks/%s.py' % pid.lower()):
        del CLAIMED[pid]
NOTE = "trusted base: TLC, the Rust harness plumbing (drives the public API, maps tokens), small-scope hypothesis; see DESIGN.md section 6/7"
commits = subprocess.run(['git', '-C', '/repo', 'log', '--format=%h %s'], capture_output=True, text=True).stdout.splitlines()
hooks = [c.split()[0] for c in commits if c.split(' ', 1)[1].startswith('verif hook')]
m = {"version": 1,
     "setup_cmd": "cd /verif/harness && CARGO_NET_OFFLINE=true cargo build --offline && cd /verif && python3 -m compileall -q pyverif checks",
     "hooks": {"guard": "bigtools_verif", "enable": "rustflags --cfg bigtools_verif in /verif/harness/.cargo/config.toml (harness has a path dependency on /repo/bigtools, so every check rebuilds from the working tree)",
               "baseline_off_cmd": "cd /repo && cargo test --workspace --no-fail-fast --offline", "source_commits": hooks, "add_only": True},
     "engines": [{"name": "tlc+vh", "path": "bin/check", "serves_properties": sorted(CLAIMED), "kind_free_text": "explicit TLA+ specification (spec/*.tla) checked by TLC; behaviours replayed into the real code by the Rust harness (harness/); observations/traces judged by TLC"}],
     "checks": [], "notes": "see DESIGN.md; known findings in known_findings.json", "not_applicable": []}
for p in props:
    pid = p['id']
    if pid in CLAIMED:
        text, tech, ref = CLAIMED[pid]
        m["checks"].append({"property_id": pid, "quick_cmd": "bin/check %s --tier quick" % pid, "thorough_cmd": "bin/check %s --tier thorough" % pid,
                            "evidence_file": "/verif/evidence/%s.json" % pid, "replay_cmd_template": "bin/check %s --replay {path}" % pid, "engine": "tlc+vh",
                            "level_claimed": {"category": "model_checking", "text": text, "design_ref": "DESIGN.md section " + ref},
                            "level_note": NOTE, "technique": tech})
    else:
        m["not_applicable"].append({"property_id": pid, "reason": "check not built yet (planned, see DESIGN.md section 4); not claimed until it runs clean"})
json.dump(m, open('/verif/MANIFEST.json', 'w'), indent=1)
print(len(m["checks"]), "claimed")
